//! Crash containment: a run that kills the process (stack overflow -> SIGABRT, SIGSEGV, abort())
//! cannot be caught by catch_unwind. Every worker publishes the case it is executing in a static
//! table; a signal handler dumps the table to a pre-opened file descriptor (async-signal-safe
//! writes only); the supervising parent process then re-runs the candidates one per subprocess to
//! find the crashing case, writes the replay file and reports the violation.

use std::sync::atomic::{AtomicI32, AtomicU64, Ordering};

pub const MAX_WORKERS: usize = 64;
const IDLE: u64 = u64::MAX;

#[allow(clippy::declare_interior_mutable_const)]
const A0: AtomicU64 = AtomicU64::new(IDLE);
static CUR_BATCH: [AtomicU64; MAX_WORKERS] = [A0; MAX_WORKERS];
static CUR_INDEX: [AtomicU64; MAX_WORKERS] = [A0; MAX_WORKERS];
static CRASH_FD: AtomicI32 = AtomicI32::new(-1);

pub fn set_current(worker: usize, batch_no: u64, index: u64) {
    if worker < MAX_WORKERS {
        CUR_INDEX[worker].store(index, Ordering::Relaxed);
        CUR_BATCH[worker].store(batch_no, Ordering::Release);
    }
}

pub fn clear_current(worker: usize) {
    if worker < MAX_WORKERS {
        CUR_BATCH[worker].store(IDLE, Ordering::Release);
    }
}

fn fmt_u64(mut v: u64, buf: &mut [u8; 24]) -> &[u8] {
    let mut i = buf.len();
    if v == 0 {
        i -= 1;
        buf[i] = b'0';
    }
    while v > 0 {
        i -= 1;
        buf[i] = b'0' + (v % 10) as u8;
        v /= 10;
    }
    &buf[i..]
}

extern "C" fn on_fatal_signal(sig: libc::c_int) {
    let fd = CRASH_FD.load(Ordering::Relaxed);
    if fd >= 0 {
        for w in 0..MAX_WORKERS {
            let b = CUR_BATCH[w].load(Ordering::Acquire);
            if b != IDLE {
                let i = CUR_INDEX[w].load(Ordering::Relaxed);
                let mut b1 = [0u8; 24];
                let mut b2 = [0u8; 24];
                let s1 = fmt_u64(b, &mut b1);
                let s2 = fmt_u64(i, &mut b2);
                unsafe {
                    libc::write(fd, b"CRASH-CANDIDATE ".as_ptr() as *const libc::c_void, 16);
                    libc::write(fd, s1.as_ptr() as *const libc::c_void, s1.len());
                    libc::write(fd, b" ".as_ptr() as *const libc::c_void, 1);
                    libc::write(fd, s2.as_ptr() as *const libc::c_void, s2.len());
                    libc::write(fd, b"\n".as_ptr() as *const libc::c_void, 1);
                }
            }
        }
        unsafe {
            libc::fsync(fd);
        }
    }
    unsafe {
        // restore the default action and re-raise so that the exit status shows the signal
        libc::signal(sig, libc::SIG_DFL);
        libc::raise(sig);
    }
}

/// Open `path` for the crash dump and hook SIGABRT (Rust's stack-overflow handler ends in abort()).
pub fn install(path: &std::path::Path) {
    use std::os::unix::ffi::OsStrExt;
    let mut c: Vec<u8> = path.as_os_str().as_bytes().to_vec();
    c.push(0);
    let fd = unsafe {
        libc::open(
            c.as_ptr() as *const libc::c_char,
            libc::O_WRONLY | libc::O_CREAT | libc::O_TRUNC,
            0o644,
        )
    };
    CRASH_FD.store(fd, Ordering::Relaxed);
    unsafe {
        libc::signal(libc::SIGABRT, on_fatal_signal as usize);
    }
}
