//! The harness's own PRNGs. The harness never draws from `rand` for itself:
//! every workload / parameter / schedule / fault choice comes from these,
//! seeded (through SplitMix64) from VERIF_SEED, the property id and the run index.

pub fn splitmix64(state: &mut u64) -> u64 {
    *state = state.wrapping_add(0x9E37_79B9_7F4A_7C15);
    let mut z = *state;
    z = (z ^ (z >> 30)).wrapping_mul(0xBF58_476D_1CE4_E5B9);
    z = (z ^ (z >> 27)).wrapping_mul(0x94D0_49BB_1331_11EB);
    z ^ (z >> 31)
}

/// Mix several integers into one seed (order sensitive).
pub fn mix(parts: &[u64]) -> u64 {
    let mut s = 0x243F_6A88_85A3_08D3u64;
    let mut out = 0u64;
    for p in parts {
        s ^= *p;
        out = splitmix64(&mut s) ^ out.rotate_left(17);
    }
    let mut t = out;
    splitmix64(&mut t)
}

pub fn str_seed(s: &str) -> u64 {
    let mut h = 0xcbf2_9ce4_8422_2325u64;
    for b in s.bytes() {
        h ^= b as u64;
        h = h.wrapping_mul(0x0000_0100_0000_01B3);
    }
    h
}

/// xoshiro256** (Blackman & Vigna).
#[derive(Clone, Debug)]
pub struct Xo {
    s: [u64; 4],
}

impl Xo {
    pub fn new(seed: u64) -> Xo {
        let mut st = seed;
        let mut s = [0u64; 4];
        for x in s.iter_mut() {
            *x = splitmix64(&mut st);
        }
        if s == [0, 0, 0, 0] {
            s[0] = 1;
        }
        Xo { s }
    }
    /// independent sub-stream for a named concern
    pub fn fork(seed: u64, concern: &str) -> Xo {
        Xo::new(mix(&[seed, str_seed(concern)]))
    }
    pub fn u64(&mut self) -> u64 {
        let r = self.s[1].wrapping_mul(5).rotate_left(7).wrapping_mul(9);
        let t = self.s[1] << 17;
        self.s[2] ^= self.s[0];
        self.s[3] ^= self.s[1];
        self.s[1] ^= self.s[2];
        self.s[0] ^= self.s[3];
        self.s[2] ^= t;
        self.s[3] = self.s[3].rotate_left(45);
        r
    }
    /// uniform in 0..n (n > 0); tiny modulo bias is irrelevant for workload generation
    pub fn below(&mut self, n: u64) -> u64 {
        debug_assert!(n > 0);
        ((self.u64() as u128 * n as u128) >> 64) as u64
    }
    pub fn usize_in(&mut self, lo: usize, hi_incl: usize) -> usize {
        lo + self.below((hi_incl - lo + 1) as u64) as usize
    }
    /// uniform in [0,1)
    pub fn f64(&mut self) -> f64 {
        (self.u64() >> 11) as f64 * (1.0 / 9007199254740992.0)
    }
    pub fn range(&mut self, lo: f64, hi: f64) -> f64 {
        lo + (hi - lo) * self.f64()
    }
    pub fn chance(&mut self, p: f64) -> bool {
        self.f64() < p
    }
    pub fn pick<'a, T>(&mut self, xs: &'a [T]) -> &'a T {
        &xs[self.below(xs.len() as u64) as usize]
    }
    /// approximately standard normal (sum of 4 uniforms, rescaled) — workload only
    pub fn gaussish(&mut self) -> f64 {
        let s = self.f64() + self.f64() + self.f64() + self.f64();
        (s - 2.0) * 1.7320508075688772
    }
    pub fn shuffle<T>(&mut self, xs: &mut [T]) {
        for i in (1..xs.len()).rev() {
            let j = self.below(i as u64 + 1) as usize;
            xs.swap(i, j);
        }
    }
}

/// FNV-1a style 64-bit running digest used for event logs / schedules / states.
#[derive(Clone, Copy, Debug)]
pub struct Digest(pub u64);

impl Default for Digest {
    fn default() -> Self {
        Digest::new()
    }
}

impl Digest {
    pub fn new() -> Digest {
        Digest(0xcbf2_9ce4_8422_2325)
    }
    pub fn u64(&mut self, v: u64) -> &mut Self {
        // word-wise mixing (stronger than bytewise FNV, still cheap)
        let mut s = self.0 ^ v;
        self.0 = splitmix64(&mut s) ^ self.0.rotate_left(23);
        self
    }
    pub fn usize(&mut self, v: usize) -> &mut Self {
        self.u64(v as u64)
    }
    pub fn f64(&mut self, v: f64) -> &mut Self {
        self.u64(v.to_bits())
    }
    pub fn bytes(&mut self, b: &[u8]) -> &mut Self {
        self.u64(b.len() as u64);
        for ch in b.chunks(8) {
            let mut w = [0u8; 8];
            w[..ch.len()].copy_from_slice(ch);
            self.u64(u64::from_le_bytes(w));
        }
        self
    }
    pub fn str(&mut self, s: &str) -> &mut Self {
        self.bytes(s.as_bytes())
    }
    pub fn usizes(&mut self, v: &[usize]) -> &mut Self {
        self.u64(v.len() as u64);
        for x in v {
            self.u64(*x as u64);
        }
        self
    }
    pub fn f64s(&mut self, v: &[f64]) -> &mut Self {
        self.u64(v.len() as u64);
        for x in v {
            self.f64(*x);
        }
        self
    }
    pub fn get(&self) -> u64 {
        self.0
    }
}
