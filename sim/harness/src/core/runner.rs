//! Generic batch driver: seeded case generation, parallel execution with index-ordered
//! reduction, determinism proofs (thread-hop re-execution + second process with another
//! worker count), minimisation, replay files, known findings, evidence.

use super::rng::{mix, str_seed};
use super::tape::Word;
use serde::de::DeserializeOwned;
use serde::Serialize;
use serde_json::{json, Value};
use std::collections::{BTreeMap, HashSet};
use std::path::{Path, PathBuf};
use std::sync::atomic::{AtomicU64, Ordering};
use std::sync::Mutex;
use std::time::Instant;

#[derive(Clone, Copy, Debug, PartialEq, Eq)]
pub enum Tier {
    Quick,
    Thorough,
}

impl Tier {
    pub fn name(&self) -> &'static str {
        match self {
            Tier::Quick => "quick",
            Tier::Thorough => "thorough",
        }
    }
}

#[derive(Clone, Debug, Serialize, serde::Deserialize, PartialEq)]
pub struct Violation {
    /// violation class, e.g. "nan-centroid"
    pub class: String,
    /// coarse cause key used (with class) to match known findings
    pub cause: String,
    pub detail: String,
}

impl Violation {
    pub fn new(class: &str, cause: &str, detail: String) -> Violation {
        Violation {
            class: class.to_string(),
            cause: cause.to_string(),
            detail,
        }
    }
}

#[derive(Default, Debug, Clone)]
pub struct Report {
    pub violation: Option<Violation>,
    /// digest of everything this run observed (words served, probe events, results)
    pub log_digest: u64,
    /// Some(digest of the decoded schedule) when the run is non-trivial by the property's rule
    pub schedule: Option<u64>,
    /// digests of distinct states visited (state measure named by the property)
    pub states: Vec<u64>,
    pub counters: BTreeMap<String, u64>,
    /// measured maxima (e.g. worst relative excess seen by an oracle), merged by max
    pub maxima: BTreeMap<String, f64>,
    /// words served by the primary tape (for literal replay)
    pub tape: Vec<Word>,
    /// digest of results that must additionally agree across OS processes; a cross-process
    /// mismatch of this digest (with equal log_digest) is a *property* violation, not a harness error
    pub aux_digest: u64,
}

impl Report {
    pub fn count(&mut self, key: &str, by: u64) {
        if by > 0 {
            *self.counters.entry(key.to_string()).or_insert(0) += by;
        }
    }
    pub fn max(&mut self, key: &str, v: f64) {
        if v.is_finite() {
            let e = self.maxima.entry(key.to_string()).or_insert(f64::NEG_INFINITY);
            if v > *e {
                *e = v;
            }
        }
    }
    pub fn fail(&mut self, class: &str, cause: &str, detail: String) {
        if self.violation.is_none() {
            self.violation = Some(Violation::new(class, cause, detail));
        }
    }
}

#[derive(Clone, Debug)]
pub struct Batch {
    pub name: &'static str,
    pub count: u64,
    /// true: a simulated (schedule / fault carrying) configuration; false: schedule-free ride-along
    pub simulated: bool,
    /// true when this batch enumerates a finite space completely
    pub exhaustive: bool,
    pub note: &'static str,
}

pub trait Property: Sync + Send {
    type Case: Serialize + DeserializeOwned + Clone + Send + Sync;
    fn id(&self) -> &'static str;
    fn batches(&self, tier: Tier) -> Vec<Batch>;
    fn gen(&self, batch: &str, index: u64, seed: u64) -> Self::Case;
    fn run(&self, case: &Self::Case) -> Report;
    /// smaller variants of a failing case (any order; greedy first-fit)
    fn shrink(&self, case: &Self::Case) -> Vec<Self::Case>;
    /// replace the case's tape policy by the literal words that were served
    fn literalize(&self, case: &Self::Case, report: &Report) -> Self::Case;
    /// short description of a case for evidence samples
    fn sample(&self, case: &Self::Case, report: &Report) -> Value;
    /// true for violation classes that are inherently probabilistic per run (the violated clause is
    /// determinism itself): minimisation then demands 2 failures in 4 tries of a candidate and a replay
    /// re-executes the recorded case up to 40 times
    fn flaky_class(&self, _class: &str) -> bool {
        false
    }
    fn rule(&self) -> String;
    fn state_measure(&self) -> String;
    fn assumptions(&self) -> Vec<String>;
    fn components(&self) -> Value;
}

pub fn verif_root() -> PathBuf {
    if let Ok(p) = std::env::var("VERIF_ROOT") {
        return PathBuf::from(p);
    }
    PathBuf::from("/verif")
}

pub fn base_seed() -> u64 {
    std::env::var("VERIF_SEED")
        .ok()
        .and_then(|s| s.trim().parse::<i128>().ok())
        .map(|v| v as u64)
        .unwrap_or(20260927)
}

pub fn workers() -> usize {
    std::env::var("VERIF_WORKERS")
        .ok()
        .and_then(|s| s.parse().ok())
        .unwrap_or_else(|| {
            std::thread::available_parallelism()
                .map(|n| n.get())
                .unwrap_or(4)
                .min(16)
        })
}

pub fn case_seed(base: u64, prop: &str, batch: &str, index: u64) -> u64 {
    mix(&[base, str_seed(prop), str_seed(batch), index])
}

// ------------------------------------------------------------------------------------------
// panic capture
// ------------------------------------------------------------------------------------------

thread_local! {
    static LAST_PANIC: std::cell::RefCell<Option<String>> = std::cell::RefCell::new(None);
}

pub fn install_quiet_panic_hook() {
    std::panic::set_hook(Box::new(|info| {
        let msg = if let Some(s) = info.payload().downcast_ref::<&str>() {
            s.to_string()
        } else if let Some(s) = info.payload().downcast_ref::<String>() {
            s.clone()
        } else {
            "<non-string panic>".to_string()
        };
        let loc = info
            .location()
            .map(|l| {
                let f = l.file();
                let f = f.rsplit("/src/").next().unwrap_or(f);
                format!("{}:{}", f, l.line())
            })
            .unwrap_or_default();
        LAST_PANIC.with(|p| *p.borrow_mut() = Some(format!("{} @ {}", msg, loc)));
    }));
}

/// Run `f`, converting a panic into Err(message).
pub fn guarded<R>(f: impl FnOnce() -> R) -> Result<R, String> {
    LAST_PANIC.with(|p| *p.borrow_mut() = None);
    match std::panic::catch_unwind(std::panic::AssertUnwindSafe(f)) {
        Ok(r) => Ok(r),
        Err(_) => Err(LAST_PANIC
            .with(|p| p.borrow_mut().take())
            .unwrap_or_else(|| "<panic>".to_string())),
    }
}

// ------------------------------------------------------------------------------------------
// batch execution
// ------------------------------------------------------------------------------------------

#[derive(Default)]
struct Agg {
    evaluations: u64,
    simulated_runs: u64,
    schedule_free_runs: u64,
    counters: BTreeMap<String, u64>,
    maxima: BTreeMap<String, f64>,
    schedules: HashSet<u64>,
    states: HashSet<u64>,
    batch_digest: u64,
    prefix_digest: u64,
    prefix_runs: Vec<(String, u64, u64, u64)>, // (batch, index, log digest, aux digest)
    rehop: Vec<(usize, u64, u64)>,             // (batch no, index, log digest) to re-execute
    cut_short: bool,
    violations: Vec<(String, u64, Violation)>, // (batch, index, violation)
    determinism_pairs: u64,
    determinism_mismatch: Vec<(String, u64)>,
    per_batch: BTreeMap<String, (u64, u64)>, // runs, violations
}

impl Agg {
    fn merge(&mut self, o: Agg) {
        self.evaluations += o.evaluations;
        self.simulated_runs += o.simulated_runs;
        self.schedule_free_runs += o.schedule_free_runs;
        for (k, v) in o.counters {
            *self.counters.entry(k).or_insert(0) += v;
        }
        for (k, v) in o.maxima {
            let e = self.maxima.entry(k).or_insert(f64::NEG_INFINITY);
            if v > *e {
                *e = v;
            }
        }
        self.schedules.extend(o.schedules);
        self.states.extend(o.states);
        self.batch_digest = self.batch_digest.wrapping_add(o.batch_digest);
        self.prefix_digest = self.prefix_digest.wrapping_add(o.prefix_digest);
        self.prefix_runs.extend(o.prefix_runs);
        self.rehop.extend(o.rehop);
        self.cut_short |= o.cut_short;
        self.violations.extend(o.violations);
        self.determinism_pairs += o.determinism_pairs;
        self.determinism_mismatch.extend(o.determinism_mismatch);
        for (k, v) in o.per_batch {
            let e = self.per_batch.entry(k).or_insert((0, 0));
            e.0 += v.0;
            e.1 += v.1;
        }
    }
}

/// fraction of each batch (from index 0) whose digest is cross-checked in a second process
/// Runs are executed in chunks of consecutive indices, every chunk on a freshly spawned thread, so that
/// whatever hidden thread-local state the code under test keeps starts empty at a chunk boundary: the history
/// of run i is exactly the runs chunk_start(i)..i of its batch — independent of worker count and scheduling —
/// and can be replayed. (The chunk size depends on the batch size only.)
pub fn chunk_len(count: u64) -> u64 {
    if count >= 4096 {
        32
    } else if count >= 256 {
        8
    } else {
        1
    }
}

fn prefix_len(count: u64, tier: Tier) -> u64 {
    // the few-run batches are the expensive ones (seconds to minutes and gigabytes per run): two of their runs
    // are repeated in the second process, not all of them
    if count <= 16 {
        return count.min(2);
    }
    match tier {
        Tier::Quick => (count / 8).max(count.min(50)),
        Tier::Thorough => (count / 20).max(count.min(2000)),
    }
}

fn run_batches<P: Property>(
    p: &P,
    tier: Tier,
    seed: u64,
    nworkers: usize,
    only_prefix: bool,
    rehop_every: u64,
) -> Agg {
    let batches = p.batches(tier);
    let total = Mutex::new(Agg::default());
    let trace = std::env::var("VERIF_TRACE").is_ok();
    // once this many runs have violated the property the rest of the exploration is skipped: chunks are
    // claimed in increasing index order and a claimed chunk is always finished, so every index below the
    // lowest violating index has been executed and the reported (lowest-index) representative of the
    // first batch that fails is the same on every machine and worker count
    let stop_after: u64 = std::env::var("VERIF_STOP_AFTER").ok().and_then(|s| s.parse().ok()).unwrap_or(48);
    let violating = AtomicU64::new(0);
    let only = std::env::var("VERIF_ONLY_BATCH").ok();
    for (bno, b) in batches.iter().enumerate() {
        if let Some(o) = &only {
            if o != b.name {
                continue;
            }
        }
        let limit = if only_prefix {
            prefix_len(b.count, tier)
        } else {
            b.count
        };
        let pref = prefix_len(b.count, tier);
        let next = AtomicU64::new(0);
        let chunk: u64 = chunk_len(b.count);
        std::thread::scope(|s| {
            for w in 0..nworkers {
                let builder = std::thread::Builder::new().stack_size(64 << 20);
                let (next, total, violating) = (&next, &total, &violating);
                builder
                    .spawn_scoped(s, move || {
                        let mut agg = Agg::default();
                        loop {
                            if violating.load(Ordering::Relaxed) >= stop_after {
                                agg.cut_short = true;
                                break;
                            }
                            let start = next.fetch_add(chunk, Ordering::Relaxed);
                            if start >= limit {
                                break;
                            }
                            let end = (start + chunk).min(limit);
                            let agg_ref = &mut agg;
                            std::thread::scope(|cs_scope| {
                            let h = std::thread::Builder::new().stack_size(32 << 20).spawn_scoped(cs_scope, move || {
                            let agg = agg_ref;
                            for idx in start..end {
                                let cs = case_seed(seed, p.id(), b.name, idx);
                                let case = p.gen(b.name, idx, cs);
                                if trace {
                                    eprintln!("TRACE start {} {}", b.name, idx);
                                }
                                super::crash::set_current(w, bno as u64, idx);
                                let rep = p.run(&case);
                                if trace {
                                    eprintln!("TRACE done {} {}", b.name, idx);
                                }
                                agg.evaluations += 1;
                                if b.simulated {
                                    agg.simulated_runs += 1;
                                } else {
                                    agg.schedule_free_runs += 1;
                                }
                                let e = agg.per_batch.entry(b.name.to_string()).or_insert((0, 0));
                                e.0 += 1;
                                let contrib = mix(&[str_seed(b.name), idx, rep.log_digest]);
                                agg.batch_digest = agg.batch_digest.wrapping_add(contrib);
                                if idx < pref {
                                    agg.prefix_digest = agg.prefix_digest.wrapping_add(contrib);
                                    agg.prefix_runs.push((b.name.to_string(), idx, rep.log_digest, rep.aux_digest));
                                }
                                for (k, v) in &rep.counters {
                                    *agg.counters.entry(k.clone()).or_insert(0) += v;
                                }
                                for (k, v) in &rep.maxima {
                                    let e = agg.maxima.entry(k.clone()).or_insert(f64::NEG_INFINITY);
                                    if *v > *e {
                                        *e = *v;
                                    }
                                }
                                if let Some(sd) = rep.schedule {
                                    agg.schedules.insert(sd);
                                }
                                for st in &rep.states {
                                    agg.states.insert(*st);
                                }
                                if let Some(v) = &rep.violation {
                                    e.1 += 1;
                                    // a run that exhausted its step budget is expensive: four of them end the exploration
                                    let weight = if v.class.starts_with("no-termination") { 12 } else { 1 };
                                    violating.fetch_add(weight, Ordering::Relaxed);
                                    if agg.violations.len() < 10_000 {
                                        agg.violations.push((b.name.to_string(), idx, v.clone()));
                                    }
                                }
                                // determinism proof (a), first half: remember the digest; a second pass
                                // re-executes these runs on freshly spawned threads (see below)
                                if rehop_every > 0 && idx % rehop_every == 0 {
                                    agg.rehop.push((bno, idx, rep.log_digest));
                                }
                            }
                            }).expect("spawn chunk thread");
                            let _ = h.join();
                            });
                        }
                        super::crash::clear_current(w);
                        total.lock().unwrap().merge(agg);
                    })
                    .unwrap();
            }
        });
    }
    let mut agg = total.into_inner().unwrap();
    // determinism proof (a), second half: every sampled run is executed again on a thread that
    // did not exist during the first pass (fresh thread-local RNG state, hash keys, allocator arena)
    if !agg.rehop.is_empty() {
        agg.rehop.sort();
        let list = std::mem::take(&mut agg.rehop);
        let next = AtomicU64::new(0);
        let mism = Mutex::new(Vec::new());
        std::thread::scope(|s| {
            for w in 0..nworkers {
                let (next, mism, list, batches) = (&next, &mism, &list, &batches);
                std::thread::Builder::new()
                    .stack_size(64 << 20)
                    .spawn_scoped(s, move || loop {
                        let i = next.fetch_add(1, Ordering::Relaxed) as usize;
                        if i >= list.len() {
                            super::crash::clear_current(w);
                            break;
                        }
                        let (bno, idx, d1) = list[i];
                        let bname = batches[bno].name;
                        let cs = case_seed(seed, p.id(), bname, idx);
                        super::crash::set_current(w, bno as u64, idx);
                        let d2 = p.run(&p.gen(bname, idx, cs)).log_digest;
                        if d2 != d1 {
                            mism.lock().unwrap().push((bname.to_string(), idx));
                        }
                    })
                    .unwrap();
            }
        });
        agg.determinism_pairs = list.len() as u64;
        agg.determinism_mismatch = mism.into_inner().unwrap();
    }
    agg.violations.sort_by(|a, b| (a.0.as_str(), a.1).cmp(&(b.0.as_str(), b.1)));
    agg.determinism_mismatch.sort();
    agg.prefix_runs.sort();
    agg
}

// ------------------------------------------------------------------------------------------
// known findings
// ------------------------------------------------------------------------------------------

#[derive(serde::Deserialize, Debug, Clone)]
pub struct Finding {
    pub property: String,
    pub class: String,
    pub cause: String,
    /// "known" (suppresses, printed as KNOWN-FINDING) or "fixed" (suppresses nothing)
    pub status: String,
    #[serde(default)]
    pub what: String,
    #[serde(default)]
    pub commit: String,
}

pub fn load_findings() -> Vec<Finding> {
    let p = verif_root().join("known_findings.json");
    match std::fs::read_to_string(&p) {
        Ok(s) => {
            let v: Value = serde_json::from_str(&s).unwrap_or_else(|e| {
                eprintln!("harness error: cannot parse {}: {}", p.display(), e);
                std::process::exit(2)
            });
            serde_json::from_value(v["findings"].clone()).unwrap_or_default()
        }
        Err(_) => vec![],
    }
}

// ------------------------------------------------------------------------------------------
// replay files
// ------------------------------------------------------------------------------------------

/// Last resort for a violation that reproduces neither in isolation nor with its history: the verdict depends on
/// something the simulator does not own (real threads inside the code under test are the usual reason). The case is
/// executed again and again on all worker threads at once - the contention is part of the point - until the same
/// violation class shows again or the bounds are exhausted. Returns (executions until the hit, the violating report).
pub fn stress_reproduce<P: Property>(p: &P, case: &P::Case, class: &str, max_execs: u64, max_secs: f64) -> Option<(u64, Report)> {
    use std::sync::atomic::{AtomicBool, AtomicU64, Ordering};
    let found = AtomicBool::new(false);
    let execs = AtomicU64::new(0);
    let hit: Mutex<Option<(u64, Report)>> = Mutex::new(None);
    let t0 = Instant::now();
    let nw = workers().max(2);
    std::thread::scope(|sc| {
        for _ in 0..nw {
            sc.spawn(|| {
                while !found.load(Ordering::Relaxed) {
                    let k = execs.fetch_add(1, Ordering::Relaxed) + 1;
                    if k > max_execs || t0.elapsed().as_secs_f64() > max_secs {
                        break;
                    }
                    let r = p.run(case);
                    if r.violation.as_ref().map(|v| v.class == class).unwrap_or(false) {
                        found.store(true, Ordering::Relaxed);
                        let mut h = hit.lock().unwrap();
                        if h.is_none() {
                            *h = Some((k, r));
                        }
                        break;
                    }
                }
            });
        }
    });
    hit.into_inner().unwrap()
}

const STRESS_EXECS: u64 = 400_000;
const STRESS_SECS: f64 = 90.0;

pub fn replay_case<P: Property>(p: &P, path: &Path) -> i32 {
    let s = match std::fs::read_to_string(path) {
        Ok(s) => s,
        Err(e) => {
            eprintln!("harness error: cannot read {}: {}", path.display(), e);
            return 2;
        }
    };
    let v: Value = match serde_json::from_str(&s) {
        Ok(v) => v,
        Err(e) => {
            eprintln!("harness error: bad replay file: {}", e);
            return 2;
        }
    };
    let case: P::Case = match serde_json::from_value(v["case"].clone()) {
        Ok(c) => c,
        Err(e) => {
            eprintln!("harness error: bad case in replay file: {}", e);
            return 2;
        }
    };
    let flaky = v.get("flaky").and_then(|x| x.as_bool()).unwrap_or(false);
    if v.get("stress").and_then(|x| x.as_bool()).unwrap_or(false) {
        let class = v["class"].as_str().unwrap_or("").to_string();
        println!("  (violation outside the simulator's control: the recorded case is executed repeatedly on all worker threads, at most {} times / {} s)", STRESS_EXECS, STRESS_SECS);
        return match stress_reproduce(p, &case, &class, STRESS_EXECS, STRESS_SECS) {
            Some((k, rep)) => {
                let vi = rep.violation.as_ref().unwrap();
                println!("REPLAY property={} class={} cause={} digest={:016x}", p.id(), vi.class, vi.cause, rep.log_digest);
                println!("  detail (execution {}): {}", k, vi.detail);
                1
            }
            None => {
                println!("REPLAY property={} class=none digest={:016x}", p.id(), 0u64);
                0
            }
        };
    }
    let history: Vec<P::Case> = match v.get("history") {
        Some(h) if !h.is_null() => match serde_json::from_value(h.clone()) {
            Ok(x) => x,
            Err(e) => {
                eprintln!("harness error: bad history in replay file: {}", e);
                return 2;
            }
        },
        _ => vec![],
    };
    if !history.is_empty() {
        println!("  (history-dependent violation: {} preceding run(s) are replayed on the same fresh thread first)", history.len());
        let rep = run_with_history(p, &history, &case);
        return match &rep.violation {
            Some(vi) => {
                println!("REPLAY property={} class={} cause={} digest={:016x}", p.id(), vi.class, vi.cause, rep.log_digest);
                println!("  detail: {}", vi.detail);
                1
            }
            None => {
                println!("REPLAY property={} class=none digest={:016x}", p.id(), rep.log_digest);
                0
            }
        };
    }
    let mut rep = p.run(&case);
    let mut tries = 1;
    while flaky && rep.violation.is_none() && tries < 40 {
        rep = p.run(&case);
        tries += 1;
    }
    if flaky {
        println!("  (probabilistic violation class: {} execution(s) of the recorded case)", tries);
    }
    if std::env::var("VERIF_REPLAY_VERBOSE").is_ok() {
        println!("{}", serde_json::to_string_pretty(&p.sample(&case, &rep)).unwrap());
        println!("counters: {:?}", rep.counters);
    }
    if let Some(exp) = v.get("expected_aux_digest").and_then(|x| x.as_str()) {
        let got = format!("{:016x}", rep.aux_digest);
        if rep.violation.is_none() && got != exp {
            println!(
                "REPLAY property={} class=cross-process-divergence cause=result-depends-on-process digest={:016x}",
                p.id(),
                rep.log_digest
            );
            println!("  detail: result digest {} here, {} when recorded", got, exp);
            return 1;
        }
    }
    match &rep.violation {
        Some(vi) => {
            println!(
                "REPLAY property={} class={} cause={} digest={:016x}",
                p.id(),
                vi.class,
                vi.cause,
                rep.log_digest
            );
            println!("  detail: {}", vi.detail);
            1
        }
        None => {
            println!("REPLAY property={} class=none digest={:016x}", p.id(), rep.log_digest);
            0
        }
    }
}

/// Execute `history` and then `case` on one freshly spawned thread (the situation of a run inside its chunk);
/// the report is the last case's.
fn run_with_history<P: Property>(p: &P, history: &[P::Case], case: &P::Case) -> Report {
    std::thread::scope(|s| {
        std::thread::Builder::new()
            .stack_size(32 << 20)
            .spawn_scoped(s, || {
                for h in history {
                    let _ = p.run(h);
                }
                p.run(case)
            })
            .expect("spawn history thread")
            .join()
            .unwrap_or_default()
    })
}

/// run a case; for a probabilistic class return a failing report only if it fails at least twice in four tries
fn run_for<P: Property>(p: &P, case: &P::Case, class: &str, cause: &str, flaky: bool) -> Report {
    // a probabilistic violation may surface through different observations (causes) from run to run
    let same = |r: &Report| r.violation.as_ref().map(|v| v.class == class).unwrap_or(false);
    let _ = cause;
    // every execution on a freshly spawned thread: a candidate must fail on its own, not because of what earlier
    // candidates left behind in thread-local state of the code under test (a minimised case that only fails on the
    // minimiser's thread does not replay)
    if !flaky {
        return run_with_history(p, &[], case);
    }
    let mut hits = 0;
    let mut last_hit = None;
    let mut last = Report::default();
    for _ in 0..4 {
        let r = run_with_history(p, &[], case);
        if same(&r) {
            hits += 1;
            last_hit = Some(r);
        } else {
            last = r;
        }
    }
    if hits >= 2 {
        last_hit.unwrap()
    } else {
        last.violation = None;
        last
    }
}

fn minimise<P: Property>(p: &P, case: &P::Case, class: &str, cause: &str) -> (P::Case, Report, u64) {
    let flaky = p.flaky_class(class);
    let mut cur = case.clone();
    let mut cur_rep = run_for(p, &cur, class, cause, flaky);
    let mut attempts = 0u64;
    let t0 = Instant::now();
    'outer: loop {
        if attempts > 4000 || t0.elapsed().as_secs() > 120 {
            break;
        }
        for cand in p.shrink(&cur) {
            attempts += 1;
            let r = run_for(p, &cand, class, cause, flaky);
            if let Some(v) = &r.violation {
                if v.class == class && (flaky || v.cause == cause) {
                    cur = cand;
                    cur_rep = r;
                    continue 'outer;
                }
            }
            if attempts > 4000 || t0.elapsed().as_secs() > 120 {
                break 'outer;
            }
        }
        break;
    }
    (cur, cur_rep, attempts)
}

fn sanitize(s: &str) -> String {
    s.chars()
        .map(|c| if c.is_ascii_alphanumeric() || c == '-' { c } else { '_' })
        .collect()
}

// ------------------------------------------------------------------------------------------
// top-level check
// ------------------------------------------------------------------------------------------

fn died_by_signal(st: &std::process::ExitStatus) -> Option<i32> {
    use std::os::unix::process::ExitStatusExt;
    st.signal()
}

/// `harness replay`: run the recorded case in a child so that a crash of the code under test is
/// reported as the violation it is (class process-abort) instead of killing the reporter.
pub fn replay_supervised<P: Property>(p: &P, path: &Path) -> i32 {
    let exe = std::env::current_exe().expect("current_exe");
    let st = std::process::Command::new(exe)
        .args(["replay-inner", p.id(), path.to_str().unwrap_or("")])
        .status();
    match st {
        Ok(st) => {
            if let Some(sig) = died_by_signal(&st) {
                println!("REPLAY property={} class=process-abort cause=signal-{} digest=0", p.id(), sig);
                println!("  detail: the code under test killed the process (signal {}) on this case", sig);
                1
            } else {
                st.code().unwrap_or(2)
            }
        }
        Err(e) => {
            eprintln!("harness error: cannot spawn replay child: {}", e);
            2
        }
    }
}

fn write_case_file<P: Property>(p: &P, path: &Path, case: &P::Case, extra: Value) -> bool {
    let mut file = json!({"property": p.id(), "case": serde_json::to_value(case).unwrap()});
    if let (Some(o), Some(e)) = (file.as_object_mut(), extra.as_object()) {
        for (k, v) in e {
            o.insert(k.clone(), v.clone());
        }
    }
    std::fs::write(path, serde_json::to_string_pretty(&file).unwrap()).is_ok()
}

fn case_aborts<P: Property>(p: &P, path: &Path) -> Option<i32> {
    let exe = std::env::current_exe().expect("current_exe");
    let st = std::process::Command::new(exe)
        .args(["replay-inner", p.id(), path.to_str().unwrap_or("")])
        .stdout(std::process::Stdio::null())
        .stderr(std::process::Stdio::null())
        .status()
        .ok()?;
    died_by_signal(&st)
}

/// `harness run`: supervise the real check (`exec`) so that a process-killing run is contained.
pub fn supervise<P: Property>(p: &P, tier: Tier) -> i32 {
    let exe = std::env::current_exe().expect("current_exe");
    let dir = verif_root().join("replays");
    let _ = std::fs::create_dir_all(&dir);
    let crash_file = dir.join(format!(".crash-{}-{}.txt", p.id(), std::process::id()));
    let t0 = Instant::now();
    let st = std::process::Command::new(&exe)
        .args(["exec", p.id(), tier.name()])
        .env("VERIF_CRASH_FILE", &crash_file)
        .status();
    let st = match st {
        Ok(s) => s,
        Err(e) => {
            eprintln!("HARNESS-ERROR property={} cannot spawn exec child: {}", p.id(), e);
            return 2;
        }
    };
    let sig = match died_by_signal(&st) {
        None => {
            let _ = std::fs::remove_file(&crash_file);
            return st.code().unwrap_or(2);
        }
        Some(s) => s,
    };
    // the code under test killed the process: find the case
    let seed = base_seed();
    let dump = std::fs::read_to_string(&crash_file).unwrap_or_default();
    let _ = std::fs::remove_file(&crash_file);
    let batches = p.batches(tier);
    let mut cands: Vec<(usize, u64)> = dump
        .lines()
        .filter_map(|l| {
            let parts: Vec<&str> = l.split_whitespace().collect();
            if parts.len() == 3 && parts[0] == "CRASH-CANDIDATE" {
                Some((parts[1].parse().ok()?, parts[2].parse().ok()?))
            } else {
                None
            }
        })
        .collect();
    cands.sort();
    cands.dedup();
    println!(
        "  the check process was killed by signal {} while executing one of {} in-flight runs; isolating it",
        sig,
        cands.len()
    );
    let tmp = dir.join(format!(".cand-{}-{}.json", p.id(), std::process::id()));
    let mut found: Option<(String, u64, P::Case, i32)> = None;
    for (bno, idx) in &cands {
        if *bno >= batches.len() {
            continue;
        }
        let bname = batches[*bno].name;
        let case = p.gen(bname, *idx, case_seed(seed, p.id(), bname, *idx));
        if !write_case_file(p, &tmp, &case, json!({})) {
            continue;
        }
        if let Some(s) = case_aborts(p, &tmp) {
            found = Some((bname.to_string(), *idx, case, s));
            break;
        }
    }
    let (bname, idx, case, s) = match found {
        Some(f) => f,
        None => {
            let _ = std::fs::remove_file(&tmp);
            eprintln!(
                "HARNESS-ERROR property={} check process died with signal {} and none of the in-flight runs reproduces it in isolation",
                p.id(),
                sig
            );
            return 2;
        }
    };
    // minimise with one subprocess per candidate
    let mut cur = case;
    let mut attempts = 0u64;
    let tmin = Instant::now();
    'outer: loop {
        for cand in p.shrink(&cur) {
            if attempts >= 400 || tmin.elapsed().as_secs() > 90 {
                break 'outer;
            }
            attempts += 1;
            if write_case_file(p, &tmp, &cand, json!({})) && case_aborts(p, &tmp).is_some() {
                cur = cand;
                continue 'outer;
            }
        }
        break;
    }
    let _ = std::fs::remove_file(&tmp);
    let path = dir.join(format!("{}-process-abort-signal-{}-{}-{}.json", p.id(), s, seed, idx));
    write_case_file(
        p,
        &path,
        &cur,
        json!({"class": "process-abort", "cause": format!("signal-{}", s),
               "detail": "the code under test killed the process (e.g. unbounded recursion -> stack overflow -> abort)",
               "seed": seed, "batch": bname, "index": idx, "shrink_attempts": attempts,
               "how_to_replay": format!("cd /verif && ./check replay {} <this file>", p.id())}),
    );
    if case_aborts(p, &path).is_none() {
        eprintln!("HARNESS-ERROR property={} unstable replay: {} does not abort in a fresh process", p.id(), path.display());
        return 2;
    }
    println!(
        "  violation class=process-abort cause=signal-{} first={}#{} detail: the code under test killed the process on this case",
        s, bname, idx
    );
    println!("VIOLATION property={} replay={}", p.id(), path.display());
    // evidence of what this (failed) run covered
    let sample = p.sample(&cur, &Report::default());
    let evidence = json!({
        "property_id": p.id(), "tier": tier.name(), "seed": seed as i64, "level": "exploration",
        "coverage": {
            "evaluations": cands.len().max(1), "distinct_nontrivial": 0,
            "rule": p.rule(),
            "samples": [{"batch": bname, "index": idx, "run": sample}],
            "explanation": "the batch was cut short: a run killed the check process; only the isolation of that run is reported",
            "violation_records": [{"class": "process-abort", "cause": format!("signal-{}", s), "replay": path.to_str()}],
        },
        "assumptions": p.assumptions(), "wall_s": t0.elapsed().as_secs_f64(), "violations": 1,
    });
    let evdir = verif_root().join("evidence");
    let _ = std::fs::create_dir_all(&evdir);
    let name = if std::env::var("VERIF_ONLY_BATCH").is_ok() { format!("{}.partial.json", p.id()) } else { format!("{}.json", p.id()) };
    let _ = std::fs::write(evdir.join(name), serde_json::to_string_pretty(&evidence).unwrap());
    1
}

/// debugging aid: generate one case of a batch, dump it (VERIF_DUMP_CASE=1) and run it
pub fn one_case<P: Property>(p: &P, batch: &str, index: u64) -> i32 {
    let seed = base_seed();
    let cs = case_seed(seed, p.id(), batch, index);
    let case = p.gen(batch, index, cs);
    if std::env::var("VERIF_DUMP_CASE").is_ok() {
        println!("{}", serde_json::to_string(&json!({"property": p.id(), "case": serde_json::to_value(&case).unwrap()})).unwrap());
        return 0;
    }
    let rep = p.run(&case);
    println!("{}", serde_json::to_string_pretty(&p.sample(&case, &rep)).unwrap());
    println!("violation: {:?}", rep.violation);
    println!("counters: {:?}", rep.counters);
    rep.violation.is_some() as i32
}

pub fn digest_only<P: Property>(p: &P, tier: Tier) -> i32 {
    let seed = base_seed();
    let agg = run_batches(p, tier, seed, workers(), true, 0);
    let mut out = String::new();
    for (b, i, l, a) in &agg.prefix_runs {
        out.push_str(&format!("RUN {} {} {:016x} {:016x}\n", b, i, l, a));
    }
    print!("{}", out);
    println!("PREFIX-DIGEST {:016x} {}", agg.prefix_digest, agg.evaluations);
    0
}

pub fn check<P: Property>(p: &P, tier: Tier) -> i32 {
    if let Ok(cf) = std::env::var("VERIF_CRASH_FILE") {
        super::crash::install(Path::new(&cf));
    }
    let seed = base_seed();
    let t0 = Instant::now();
    let nworkers = workers();
    println!(
        "[{}] tier={} VERIF_SEED={} workers={}",
        p.id(),
        tier.name(),
        seed,
        nworkers
    );
    let rehop = match tier {
        Tier::Quick => 20,
        Tier::Thorough => 50,
    };
    let agg = run_batches(p, tier, seed, nworkers, false, rehop);
    let wall_batches = t0.elapsed().as_secs_f64();
    let timing = std::env::var("VERIF_TIMING").is_ok();
    if timing {
        eprintln!("TIMING batches done at {:.2}s", t0.elapsed().as_secs_f64());
    }

    // determinism proof (b): same prefix of every batch in a second OS process, other worker count
    let mut process_hop = json!({"checked": false});
    let mut harness_error: Option<String> = None;
    let mut aux_mismatch: Vec<(String, u64, u64, u64)> = vec![];
    if std::env::var("VERIF_NO_PROCESS_HOP").is_err() && !agg.cut_short {
        let exe = std::env::current_exe().expect("current_exe");
        let out = std::process::Command::new(exe)
            .args(["digest", p.id(), tier.name()])
            .env("VERIF_SEED", format!("{}", seed as i64))
            .env("VERIF_WORKERS", "3")
            .output();
        match out {
            Ok(o) => {
                let so = String::from_utf8_lossy(&o.stdout);
                let mut theirs: BTreeMap<(String, u64), (u64, u64)> = BTreeMap::new();
                let mut saw_total = false;
                for l in so.lines() {
                    let parts: Vec<&str> = l.split_whitespace().collect();
                    if parts.first() == Some(&"RUN") && parts.len() == 5 {
                        let idx: u64 = parts[2].parse().unwrap_or(u64::MAX);
                        let lg = u64::from_str_radix(parts[3], 16).unwrap_or(0);
                        let ax = u64::from_str_radix(parts[4], 16).unwrap_or(0);
                        theirs.insert((parts[1].to_string(), idx), (lg, ax));
                    } else if parts.first() == Some(&"PREFIX-DIGEST") {
                        saw_total = true;
                    }
                }
                if !saw_total {
                    harness_error = Some(format!(
                        "process-hop child produced no digest (status {:?}): {}",
                        o.status.code(),
                        String::from_utf8_lossy(&o.stderr)
                    ));
                } else {
                    let mut log_mis = vec![];
                    for (b, i, lg, ax) in &agg.prefix_runs {
                        match theirs.get(&(b.clone(), *i)) {
                            None => log_mis.push((b.clone(), *i)),
                            Some((tl, ta)) => {
                                if tl != lg {
                                    log_mis.push((b.clone(), *i));
                                } else if ta != ax {
                                    aux_mismatch.push((b.clone(), *i, *ax, *ta));
                                }
                            }
                        }
                    }
                    process_hop = json!({"checked": true, "runs_compared": agg.prefix_runs.len(),
                        "child_runs": theirs.len(), "log_digest_mismatches": log_mis.len(),
                        "result_digest_mismatches": aux_mismatch.len(), "workers": [nworkers, 3]});
                    if theirs.len() != agg.prefix_runs.len() || !log_mis.is_empty() {
                        harness_error = Some(format!(
                            "process-hop: harness-level log diverged between processes for {} runs (child ran {}, we ran {}), first: {:?}",
                            log_mis.len(), theirs.len(), agg.prefix_runs.len(), log_mis.first()
                        ));
                    }
                }
            }
            Err(e) => harness_error = Some(format!("cannot spawn process-hop child: {}", e)),
        }
    }
    if timing {
        eprintln!("TIMING process-hop done at {:.2}s", t0.elapsed().as_secs_f64());
    }
    if !agg.determinism_mismatch.is_empty() {
        harness_error = Some(format!(
            "thread-hop re-execution diverged for {} runs, first: {:?}",
            agg.determinism_mismatch.len(),
            agg.determinism_mismatch[0]
        ));
    }

    // ------------------------------------------------------------------ violations
    let findings = load_findings();
    let mut groups: BTreeMap<(String, String), Vec<(String, u64, Violation)>> = BTreeMap::new();
    for v in &agg.violations {
        groups
            .entry((v.2.class.clone(), v.2.cause.clone()))
            .or_default()
            .push(v.clone());
    }
    let mut exit = 0;
    let mut known_lines = vec![];
    let mut violation_records = vec![];
    for ((class, cause), list) in &groups {
        let known = findings.iter().find(|f| {
            f.property == p.id() && f.status == "known" && &f.class == class && &f.cause == cause
        });
        if let Some(f) = known {
            let line = format!(
                "KNOWN-FINDING: property={} class={} cause={} runs={} {}",
                p.id(),
                class,
                cause,
                list.len(),
                f.what
            );
            println!("{}", line);
            known_lines.push(line);
            continue;
        }
        // minimise the lowest-index representative
        let (bname, idx, v0) = &list[0];
        let cs = case_seed(seed, p.id(), bname, *idx);
        let case = p.gen(bname, *idx, cs);
        let flaky = p.flaky_class(class);
        let mut rep0 = run_with_history(p, &[], &case);
        let mut tries = 0;
        while flaky && tries < 40 && rep0.violation.as_ref().map(|v| &v.class) != Some(class) {
            rep0 = run_with_history(p, &[], &case);
            tries += 1;
        }
        if rep0.violation.as_ref().map(|v| (&v.class, flaky || &v.cause == cause)) != Some((class, true)) {
            // not reproducible in isolation: the verdict depends on what ran before on the same thread
            // (hidden state in the code under test). Replay the run together with its chunk history.
            let b_count = p.batches(tier).iter().find(|b| b.name == bname.as_str()).map(|b| b.count).unwrap_or(1);
            let ch = chunk_len(b_count);
            let cstart = (*idx / ch) * ch;
            let mut hist: Vec<P::Case> = (cstart..*idx).map(|i| p.gen(bname, i, case_seed(seed, p.id(), bname, i))).collect();
            let same = |r: &Report| r.violation.as_ref().map(|v| &v.class == class && (flaky || &v.cause == cause)).unwrap_or(false);
            let tries = if flaky { 6 } else { 1 };
            let reproduces = |h: &[P::Case]| (0..tries).any(|_| same(&run_with_history(p, h, &case)));
            if hist.is_empty() || !reproduces(&hist) {
                // neither: the verdict depends on something the simulator does not own (threads inside the code under
                // test, typically). Stress the recorded case; a hit is reported with a replay file that says so.
                match stress_reproduce(p, &case, class, STRESS_EXECS, STRESS_SECS) {
                    None => {
                        harness_error = Some(format!(
                            "violation {}/{} of run {}#{} reproduces neither in isolation, nor with its chunk history ({} runs), nor in {} stressed executions: {:?}",
                            class, cause, bname, idx, hist.len(), STRESS_EXECS, v0.detail
                        ));
                        continue;
                    }
                    Some((k, srep)) => {
                        let dir = verif_root().join("replays");
                        let _ = std::fs::create_dir_all(&dir);
                        let path = dir.join(format!("{}-{}-{}-{}-{}-stress.json", p.id(), sanitize(class), sanitize(cause), seed, idx));
                        let file = json!({
                            "property": p.id(), "class": class, "cause": cause, "flaky": true, "stress": true,
                            "detail": srep.violation.as_ref().map(|v| v.detail.clone()).unwrap_or_default(),
                            "first_detail": v0.detail, "seed": seed, "batch": bname, "index": idx,
                            "runs_with_this_violation": list.len(),
                            "stress_note": "this violation reproduces neither in isolation nor with the runs that preceded it on its thread: the verdict depends on a source of nondeterminism the simulator does not own (real threads inside the code under test are the usual reason). The recorded case was executed repeatedly on all worker threads until the same violation class showed again; replay does the same and is therefore probabilistic. The case is not minimised.",
                            "stress_executions_until_reproduced": k,
                            "case": serde_json::to_value(&case).unwrap(),
                            "how_to_replay": format!("cd /verif && ./check replay {} <this file>", p.id()),
                        });
                        if std::fs::write(&path, serde_json::to_string_pretty(&file).unwrap()).is_err() {
                            harness_error = Some("cannot write replay file".into());
                            continue;
                        }
                        let exe = std::env::current_exe().expect("current_exe");
                        let mut ok = false;
                        for _ in 0..2 {
                            if let Ok(o) = std::process::Command::new(&exe).args(["replay", p.id(), path.to_str().unwrap()]).output() {
                                let so = String::from_utf8_lossy(&o.stdout).to_string();
                                if so.lines().any(|l| l.starts_with("REPLAY") && l.contains(&format!("class={} ", class))) {
                                    ok = true;
                                    break;
                                }
                            }
                        }
                        if !ok {
                            harness_error = Some(format!("unstable replay: {} (stressed) did not reproduce {} in a fresh process", path.display(), class));
                            continue;
                        }
                        println!(
                            "  violation class={} cause={} runs={} first={}#{} (outside the simulator's control: reproduced after {} stressed executions, replay is probabilistic) detail: {}",
                            class, cause, list.len(), bname, idx, k,
                            srep.violation.as_ref().map(|v| v.detail.as_str()).unwrap_or("")
                        );
                        println!("VIOLATION property={} replay={}", p.id(), path.display());
                        violation_records.push(json!({"class": class, "cause": cause, "runs": list.len(), "replay": path.to_str(), "stress": true}));
                        exit = 1;
                        continue;
                    }
                }
            }
            // minimise the history: drop halves, then single runs, while the violation persists
            let mut attempts = 0u64;
            let mut changed = true;
            while changed && attempts < 200 {
                changed = false;
                let n = hist.len();
                if n > 1 {
                    for (a, b2) in [(0, n / 2), (n / 2, n)] {
                        let mut cand = hist.clone();
                        cand.drain(a..b2);
                        attempts += 1;
                        if !cand.is_empty() && reproduces(&cand) {
                            hist = cand;
                            changed = true;
                            break;
                        }
                    }
                    if changed {
                        continue;
                    }
                }
                for i in 0..hist.len() {
                    if hist.len() == 1 {
                        break;
                    }
                    let mut cand = hist.clone();
                    cand.remove(i);
                    attempts += 1;
                    if reproduces(&cand) {
                        hist = cand;
                        changed = true;
                        break;
                    }
                }
            }
            let final_rep = {
                let mut r = run_with_history(p, &hist, &case);
                let mut t = 0;
                while !same(&r) && t < 40 {
                    r = run_with_history(p, &hist, &case);
                    t += 1;
                }
                r
            };
            let dir = verif_root().join("replays");
            let _ = std::fs::create_dir_all(&dir);
            let path = dir.join(format!("{}-{}-{}-{}-{}-history.json", p.id(), sanitize(class), sanitize(cause), seed, idx));
            let file = json!({
                "property": p.id(), "class": class, "cause": cause, "flaky": flaky,
                "detail": final_rep.violation.as_ref().map(|v| v.detail.clone()).unwrap_or_default(),
                "first_detail": v0.detail, "seed": seed, "batch": bname, "index": idx,
                "runs_with_this_violation": list.len(),
                "history_dependent": true,
                "history_note": "the verdict of `case` depends on hidden state left behind by the `history` runs executed before it on the same thread; replay executes history then case on one fresh thread",
                "history_shrink_attempts": attempts,
                "history": serde_json::to_value(&hist).unwrap(),
                "case": serde_json::to_value(&case).unwrap(),
                "how_to_replay": format!("cd /verif && ./check replay {} <this file>", p.id()),
            });
            if std::fs::write(&path, serde_json::to_string_pretty(&file).unwrap()).is_err() {
                harness_error = Some("cannot write replay file".into());
                continue;
            }
            let exe = std::env::current_exe().expect("current_exe");
            let mut ok = false;
            for _ in 0..(if flaky { 5 } else { 1 }) {
                if let Ok(o) = std::process::Command::new(&exe).args(["replay", p.id(), path.to_str().unwrap()]).output() {
                    let so = String::from_utf8_lossy(&o.stdout).to_string();
                    if so.lines().any(|l| l.starts_with("REPLAY") && l.contains(&format!("class={} ", class)) && (flaky || l.contains(&format!("cause={} ", cause)))) {
                        ok = true;
                        break;
                    }
                }
            }
            if !ok {
                harness_error = Some(format!("unstable replay: {} (history-dependent) did not reproduce {}/{} in a fresh process", path.display(), class, cause));
                continue;
            }
            println!(
                "  violation class={} cause={} runs={} first={}#{} (history-dependent: needs {} preceding run(s) on the same thread) detail: {}",
                class, cause, list.len(), bname, idx, hist.len(),
                final_rep.violation.as_ref().map(|v| v.detail.as_str()).unwrap_or("")
            );
            println!("VIOLATION property={} replay={}", p.id(), path.display());
            violation_records.push(json!({"class": class, "cause": cause, "runs": list.len(), "replay": path.to_str(), "history_dependent": true}));
            exit = 1;
            continue;
        }
        let lit = p.literalize(&case, &rep0);
        let lit_rep = run_for(p, &lit, class, cause, flaky);
        let start = if lit_rep.violation.as_ref().map(|v| (&v.class, flaky || &v.cause == cause)) == Some((class, true)) {
            lit
        } else {
            case.clone()
        };
        let (min_case, min_rep, attempts) = minimise(p, &start, class, cause);
        let min_case = {
            // literal tape for the minimised case as well
            let l = p.literalize(&min_case, &min_rep);
            let r = run_for(p, &l, class, cause, flaky);
            if r.violation.as_ref().map(|v| (&v.class, flaky || &v.cause == cause)) == Some((class, true)) {
                l
            } else {
                min_case
            }
        };
        let final_rep = if flaky { min_rep.clone() } else { run_with_history(p, &[], &min_case) };
        let dir = verif_root().join("replays");
        let _ = std::fs::create_dir_all(&dir);
        let path = dir.join(format!(
            "{}-{}-{}-{}-{}.json",
            p.id(),
            sanitize(class),
            sanitize(cause),
            seed,
            idx
        ));
        let file = json!({
            "property": p.id(),
            "class": class,
            "cause": cause,
            "flaky": flaky,
            "detail": final_rep.violation.as_ref().map(|v| v.detail.clone()).unwrap_or_default(),
            "first_detail": v0.detail,
            "seed": seed,
            "batch": bname,
            "index": idx,
            "runs_with_this_violation": list.len(),
            "shrink_attempts": attempts,
            "expected_log_digest": format!("{:016x}", final_rep.log_digest),
            "case": serde_json::to_value(&min_case).unwrap(),
            "how_to_replay": format!("cd /verif && ./check replay {} <this file>", p.id()),
        });
        if let Err(e) = std::fs::write(&path, serde_json::to_string_pretty(&file).unwrap()) {
            harness_error = Some(format!("cannot write replay file: {}", e));
            continue;
        }
        // replay in a fresh process; must fail the same way
        let exe = std::env::current_exe().expect("current_exe");
        let out = std::process::Command::new(exe)
            .args(["replay", p.id(), path.to_str().unwrap()])
            .output();
        let ok = match out {
            Ok(o) => {
                let so = String::from_utf8_lossy(&o.stdout).to_string();
                so.lines().any(|l| {
                    l.starts_with("REPLAY")
                        && l.contains(&format!("class={} ", class))
                        && (flaky || l.contains(&format!("cause={} ", cause)))
                })
            }
            Err(_) => false,
        };
        if !ok {
            harness_error = Some(format!(
                "unstable replay: {} did not reproduce {}/{} in a fresh process",
                path.display(),
                class,
                cause
            ));
            continue;
        }
        println!(
            "  violation class={} cause={} runs={} first={}#{} detail: {}",
            class,
            cause,
            list.len(),
            bname,
            idx,
            final_rep.violation.as_ref().map(|v| v.detail.as_str()).unwrap_or("")
        );
        println!("VIOLATION property={} replay={}", p.id(), path.display());
        violation_records.push(json!({"class": class, "cause": cause, "runs": list.len(), "replay": path.to_str()}));
        exit = 1;
    }
    for f in findings.iter().filter(|f| f.property == p.id() && f.status == "known") {
        if !groups.contains_key(&(f.class.clone(), f.cause.clone())) {
            println!(
                "  note: known finding {}/{} did not reproduce in this run",
                f.class, f.cause
            );
        }
    }

    // results that differ between two OS processes although the harness-level log is identical:
    // the property's own violation (e.g. a forest that is not a function of its seed)
    if let Some((bname, idx, ours, theirs)) = aux_mismatch.first() {
        let cs = case_seed(seed, p.id(), bname, *idx);
        let case = p.gen(bname, *idx, cs);
        let dir = verif_root().join("replays");
        let _ = std::fs::create_dir_all(&dir);
        let path = dir.join(format!("{}-cross-process-divergence-{}-{}.json", p.id(), seed, idx));
        let file = json!({
            "property": p.id(),
            "class": "cross-process-divergence",
            "cause": "result-depends-on-process",
            "detail": format!("result digest {:016x} in this process, {:016x} in a second process, same case and same served words", ours, theirs),
            "seed": seed, "batch": bname, "index": idx,
            "expected_aux_digest": format!("{:016x}", ours),
            "case": serde_json::to_value(&case).unwrap(),
        });
        let _ = std::fs::write(&path, serde_json::to_string_pretty(&file).unwrap());
        let exe = std::env::current_exe().expect("current_exe");
        let out = std::process::Command::new(exe)
            .args(["replay", p.id(), path.to_str().unwrap()])
            .output();
        let ok = match out {
            Ok(o) => String::from_utf8_lossy(&o.stdout)
                .lines()
                .any(|l| l.starts_with("REPLAY") && l.contains("class=cross-process-divergence ")),
            Err(_) => false,
        };
        if ok {
            println!(
                "  violation class=cross-process-divergence runs={} first={}#{}",
                aux_mismatch.len(), bname, idx
            );
            println!("VIOLATION property={} replay={}", p.id(), path.display());
            violation_records.push(json!({"class": "cross-process-divergence", "runs": aux_mismatch.len(), "replay": path.to_str()}));
            exit = 1;
        } else {
            harness_error = Some(format!("unstable replay: {} (cross-process divergence not reproduced)", path.display()));
        }
    }

    // ------------------------------------------------------------------ evidence
    let wall = t0.elapsed().as_secs_f64();
    // samples: first cases of each batch, regenerated
    let mut samples = vec![];
    for b in p.batches(tier) {
        for idx in 0..b.count.min(2) {
            let cs = case_seed(seed, p.id(), b.name, idx);
            let case = p.gen(b.name, idx, cs);
            let rep = p.run(&case);
            samples.push(json!({"batch": b.name, "index": idx, "case_seed": cs, "run": p.sample(&case, &rep)}));
        }
    }
    let mut steps = BTreeMap::new();
    let mut faults = BTreeMap::new();
    let mut probes = BTreeMap::new();
    let mut other = BTreeMap::new();
    for (k, v) in &agg.counters {
        if let Some(r) = k.strip_prefix("steps.") {
            steps.insert(r.to_string(), *v);
        } else if let Some(r) = k.strip_prefix("fault.") {
            faults.insert(r.to_string(), *v);
        } else if let Some(r) = k.strip_prefix("probe.") {
            probes.insert(r.to_string(), *v);
        } else {
            other.insert(k.clone(), *v);
        }
    }
    let batches_json: Vec<Value> = p
        .batches(tier)
        .iter()
        .map(|b| {
            let (runs, viol) = agg.per_batch.get(b.name).copied().unwrap_or((0, 0));
            json!({"name": b.name, "planned": b.count, "runs": runs, "violating_runs": viol,
                   "simulated": b.simulated, "exhaustive": b.exhaustive, "note": b.note})
        })
        .collect();
    let all_exhaustive = p.batches(tier).iter().all(|b| b.exhaustive);
    let n_violation_records = violation_records.len();
    let evidence = json!({
        "property_id": p.id(),
        "tier": tier.name(),
        "seed": seed as i64,
        "level": "exploration",
        "coverage": {
            "evaluations": agg.evaluations,
            "distinct_nontrivial": agg.schedules.len(),
            "rule": p.rule(),
            "samples": samples,
            "exhaustive": all_exhaustive && !agg.cut_short,
            "cut_short_after_violations": agg.cut_short,
            "simulated_runs": agg.simulated_runs,
            "schedule_free_runs": agg.schedule_free_runs,
            "batches": batches_json,
            "runs_per_hour": if wall_batches > 0.0 { (agg.evaluations as f64 / wall_batches * 3600.0) as u64 } else { 0 },
            "case_seeds_per_hour": if wall_batches > 0.0 { (agg.evaluations as f64 / wall_batches * 3600.0) as u64 } else { 0 },
            "seeds_per_hour_note": "one VERIF_SEED per invocation; every run derives its own case seed = mix(VERIF_SEED, property, batch, index), so case seeds per hour = runs per hour",
            "simulated_time": {"unit": "logical steps (no clock exists in the code under test)", "steps": steps},
            "fault_kinds_fired": faults,
            "probes": probes,
            "other_counters": other,
            "measured_maxima": agg.maxima,
            "distinct_schedules": agg.schedules.len(),
            "distinct_states": agg.states.len(),
            "state_measure": p.state_measure(),
            "determinism": {
                "thread_hop_pairs_checked": agg.determinism_pairs,
                "thread_hop_mismatches": agg.determinism_mismatch.len(),
                "process_hop": process_hop,
                "batch_digest": format!("{:016x}", agg.batch_digest),
            },
            "components": p.components(),
            "known_findings_reported": known_lines,
            "violation_records": violation_records,
            "harness_error": harness_error,
        },
        "assumptions": p.assumptions(),
        "wall_s": wall,
        "violations": n_violation_records as i64,
    });
    let evdir = verif_root().join("evidence");
    let _ = std::fs::create_dir_all(&evdir);
    // a debugging run restricted to one batch (VERIF_ONLY_BATCH) must not replace the evidence of a full run
    let evpath = if std::env::var("VERIF_ONLY_BATCH").is_ok() { evdir.join(format!("{}.partial.json", p.id())) } else { evdir.join(format!("{}.json", p.id())) };
    if let Err(e) = std::fs::write(&evpath, serde_json::to_string_pretty(&evidence).unwrap()) {
        eprintln!("harness error: cannot write evidence: {}", e);
        return 2;
    }
    println!(
        "[{}] runs={} (simulated {}, schedule-free {}) distinct_schedules={} distinct_states={} thread-hop pairs={} wall={:.1}s evidence={}",
        p.id(),
        agg.evaluations,
        agg.simulated_runs,
        agg.schedule_free_runs,
        agg.schedules.len(),
        agg.states.len(),
        agg.determinism_pairs,
        wall,
        evpath.display()
    );
    if let Some(e) = harness_error {
        eprintln!("HARNESS-ERROR property={} {}", p.id(), e);
        if exit == 1 {
            // a violation was found, minimised and re-verified in a fresh process: that verdict stands
            return 1;
        }
        return 2;
    }
    exit
}
