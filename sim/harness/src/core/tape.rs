//! Seam S1: the word source installed behind `rand::thread_rng()`.
//!
//! A `TapeSpec` fully determines every word the code under test will ever get
//! from the ambient RNG; the `TapeLog` records what was actually served.

use super::rng::{mix, Xo};
use rand::sim::Source;
use serde::{Deserialize, Serialize};
use std::cell::RefCell;
use std::rc::Rc;

/// One served word: (width in bits: 32 | 64, value).
#[derive(Serialize, Deserialize, Clone, Copy, Debug, PartialEq, Eq)]
pub struct Word(pub u8, pub u64);

pub const EXTREME32: [u64; 5] = [0, 1, 0xFFFF_FFFF, 0x8000_0000, 0xFFFF_FFFE];
/// 0 -> 0.0; 1<<11 -> 2^-53; u64::MAX -> 1-2^-53; 1<<63 -> 0.5
pub const EXTREME64: [u64; 7] = [
    0,
    1,
    u64::MAX,
    1 << 63,
    1 << 11,
    u64::MAX << 11,
    (1 << 11) - 1,
];

#[derive(Serialize, Deserialize, Clone, Debug, PartialEq)]
pub struct TapeSpec {
    /// literal words served first, in order
    pub prefix: Vec<Word>,
    /// xoshiro256** seed that continues after the prefix (`prng-schedule`)
    pub seed: u64,
    /// per-mille probability that a PRNG-served draw is replaced by an extreme word (`extreme-draw`)
    pub extreme_pm: u32,
    /// hard cap on served words; exceeding it panics with "rng-budget" (guards rejection loops)
    pub max_draws: u64,
}

impl TapeSpec {
    pub fn prng(seed: u64) -> TapeSpec {
        TapeSpec {
            prefix: vec![],
            seed,
            extreme_pm: 0,
            max_draws: 10_000_000,
        }
    }
    pub fn with_prefix(mut self, p: Vec<Word>) -> TapeSpec {
        self.prefix = p;
        self
    }
    pub fn with_extreme(mut self, pm: u32) -> TapeSpec {
        self.extreme_pm = pm;
        self
    }
    /// a literal replay spec from a recorded log (PRNG fallback stays available should the
    /// code under test ask for more words than were recorded)
    pub fn literal(words: &[Word], seed: u64) -> TapeSpec {
        TapeSpec {
            prefix: words.to_vec(),
            seed,
            extreme_pm: 0,
            max_draws: 10_000_000,
        }
    }
}

#[derive(Default, Debug, Clone)]
pub struct TapeLog {
    pub words: Vec<Word>,
    pub from_prefix: u64,
    pub from_prng: u64,
    pub extremes: u64,
    pub kind_mismatch: u64,
}

impl TapeLog {
    pub fn digest(&self) -> u64 {
        let mut d = super::rng::Digest::new();
        for w in &self.words {
            d.u64(w.0 as u64).u64(w.1);
        }
        d.get()
    }
}

pub struct TapeSource {
    spec: TapeSpec,
    pos: usize,
    rng: Xo,
    fault: Xo,
    consecutive_extreme: u32,
    log: Rc<RefCell<TapeLog>>,
}

impl TapeSource {
    pub fn new(spec: TapeSpec, log: Rc<RefCell<TapeLog>>) -> TapeSource {
        let rng = Xo::new(spec.seed);
        let fault = Xo::new(mix(&[spec.seed, 0xFA17]));
        TapeSource {
            spec,
            pos: 0,
            rng,
            fault,
            consecutive_extreme: 0,
            log,
        }
    }
    fn serve(&mut self, width: u8) -> u64 {
        let mut log = self.log.borrow_mut();
        if log.words.len() as u64 >= self.spec.max_draws {
            drop(log);
            panic!("rng-budget: more than {} ambient RNG words requested", self.spec.max_draws);
        }
        let v;
        if self.pos < self.spec.prefix.len() {
            let w = self.spec.prefix[self.pos];
            if w.0 != width {
                log.kind_mismatch += 1;
            }
            v = if width == 32 { w.1 & 0xFFFF_FFFF } else { w.1 };
            log.from_prefix += 1;
        } else {
            // always advance both streams so that the PRNG stream does not depend on fault decisions
            let raw = self.rng.u64();
            let f = self.fault.u64();
            let fire = self.spec.extreme_pm > 0
                && (f % 1000) < self.spec.extreme_pm as u64
                && self.consecutive_extreme < 12;
            if fire {
                self.consecutive_extreme += 1;
                log.extremes += 1;
                let which = (f >> 32) as usize;
                v = if width == 32 {
                    EXTREME32[which % EXTREME32.len()]
                } else {
                    EXTREME64[which % EXTREME64.len()]
                };
            } else {
                self.consecutive_extreme = 0;
                v = if width == 32 { raw >> 32 } else { raw };
            }
            log.from_prng += 1;
        }
        self.pos += 1;
        log.words.push(Word(width, v));
        v
    }
}

impl Source for TapeSource {
    fn next_u32(&mut self) -> u32 {
        self.serve(32) as u32
    }
    fn next_u64(&mut self) -> u64 {
        self.serve(64)
    }
}

/// RAII guard: installs a tape on this thread, uninstalls on drop (also on unwind).
pub struct TapeGuard {
    log: Rc<RefCell<TapeLog>>,
    armed: bool,
}

impl TapeGuard {
    pub fn install(spec: &TapeSpec) -> TapeGuard {
        let log = Rc::new(RefCell::new(TapeLog::default()));
        let prev = rand::sim::install(Box::new(TapeSource::new(spec.clone(), log.clone())));
        assert!(prev.is_none(), "harness error: nested tape install");
        TapeGuard { log, armed: true }
    }
    /// give the guard up WITHOUT uninstalling the source (someone else's guard will); unlike `mem::forget` this frees the log
    pub fn dismiss(mut self) {
        self.armed = false;
    }
    pub fn log(&self) -> TapeLog {
        self.log.borrow().clone()
    }
    pub fn served(&self) -> usize {
        self.log.borrow().words.len()
    }
}

impl Drop for TapeGuard {
    fn drop(&mut self) {
        if self.armed {
            rand::sim::uninstall();
        }
    }
}

// ---------------------------------------------------------------------------------------------
// forced permutations: synthesise the words that make rand's Fisher–Yates produce a chosen order
// ---------------------------------------------------------------------------------------------

/// Word that makes `gen_range(0..ub as u32)` return `j` on the first try.
pub fn word_for_index(j: usize, ub: usize) -> Word {
    assert!(j < ub && ub <= u32::MAX as usize);
    let num = (j as u128) << 32;
    let v = ((num + ub as u128 - 1) / ub as u128) as u64;
    Word(32, v)
}

/// Words that make `slice.shuffle(&mut thread_rng())` on `0..n` end up as `target`.
pub fn words_for_permutation(target: &[usize]) -> Vec<Word> {
    let n = target.len();
    let mut arr: Vec<usize> = (0..n).collect();
    let mut pos: Vec<usize> = (0..n).collect(); // value -> position
    let mut words = Vec::with_capacity(n.saturating_sub(1));
    for i in (1..n).rev() {
        let want = target[i];
        let j = pos[want];
        assert!(j <= i, "target is not a permutation");
        words.push(word_for_index(j, i + 1));
        let (a, b) = (arr[i], arr[j]);
        arr.swap(i, j);
        pos[a] = j;
        pos[b] = i;
    }
    words
}

/// Decode what rand's own `shuffle` does with a literal word sequence (runs rand's real code
/// on a private replay source; must be called with no tape installed on this thread).
pub fn decode_shuffle(n: usize, words: &[Word]) -> (Vec<usize>, usize) {
    use rand::seq::SliceRandom;
    let spec = TapeSpec::literal(words, 0);
    let g = TapeGuard::install(&spec);
    let mut v: Vec<usize> = (0..n).collect();
    v.shuffle(&mut rand::thread_rng());
    let used = g.served();
    (v, used)
}

/// the k-th permutation of 0..n in lexicographic order (factorial number system)
pub fn nth_permutation(n: usize, mut k: u64) -> Vec<usize> {
    let mut fact = vec![1u64; n + 1];
    for i in 1..=n {
        fact[i] = fact[i - 1] * i as u64;
    }
    let mut items: Vec<usize> = (0..n).collect();
    let mut out = Vec::with_capacity(n);
    for i in (0..n).rev() {
        let f = fact[i];
        let idx = (k / f) as usize;
        k %= f;
        out.push(items.remove(idx));
    }
    out
}

pub fn factorial(n: usize) -> u64 {
    (1..=n as u64).product()
}
