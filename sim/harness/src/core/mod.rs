pub mod rng;
pub mod runner;
pub mod tape;
pub mod crash;
pub mod selftest;
pub mod adversary;
