//! Self-test of the simulator's own machinery (run by `./check setup`): a harness whose seam, word
//! synthesis or cycle detector were broken would explore nothing and report "held".

use super::rng::Xo;
use super::tape::{decode_shuffle, factorial, nth_permutation, word_for_index, words_for_permutation, TapeGuard, TapeSpec, Word};

fn check(cond: bool, what: &str, failures: &mut Vec<String>) {
    if !cond {
        failures.push(what.to_string());
    }
}

pub fn run() -> i32 {
    let mut f: Vec<String> = vec![];
    // 1. the seam: an installed tape is what thread_rng() serves, in order, and nothing when uninstalled
    {
        use rand::RngCore;
        let spec = TapeSpec::literal(&[Word(64, 7), Word(32, 9), Word(64, u64::MAX)], 1);
        let g = TapeGuard::install(&spec);
        let mut r = rand::thread_rng();
        check(r.next_u64() == 7, "seam: first u64 word", &mut f);
        check(r.next_u32() == 9, "seam: u32 word", &mut f);
        check(r.next_u64() == u64::MAX, "seam: third word", &mut f);
        check(g.served() == 3, "seam: served count", &mut f);
        let after = r.next_u64(); // PRNG fallback (seed 1), deterministic
        drop(g);
        let g2 = TapeGuard::install(&spec);
        let mut r2 = rand::thread_rng();
        r2.next_u64();
        r2.next_u32();
        r2.next_u64();
        check(r2.next_u64() == after, "seam: PRNG fallback is a function of the seed", &mut f);
        drop(g2);
        check(!rand::sim::installed(), "seam: uninstalled after guard drop", &mut f);
        let a = rand::thread_rng().next_u64();
        let b = rand::thread_rng().next_u64();
        check(a != b || a != 7, "seam: real ThreadRng path alive when nothing is installed", &mut f);
    }
    // 2. forced index / forced permutation synthesis against rand's own code, exhaustively for n <= 7
    {
        use rand::Rng;
        for ub in 1..=40usize {
            for j in 0..ub {
                let g = TapeGuard::install(&TapeSpec::literal(&[word_for_index(j, ub)], 3));
                let got = rand::thread_rng().gen_range(0..ub as u32) as usize;
                let served = g.served();
                drop(g);
                check(got == j && served == 1, &format!("word_for_index({}, {}) -> {} after {} words", j, ub, got, served), &mut f);
            }
        }
        for n in 1..=7usize {
            for k in 0..factorial(n) {
                let target = nth_permutation(n, k);
                let words = words_for_permutation(&target);
                let (perm, used) = decode_shuffle(n, &words);
                if perm != target || used != n.saturating_sub(1) {
                    f.push(format!("words_for_permutation: n={} k={} target {:?} decoded {:?} used {}", n, k, target, perm, used));
                    break;
                }
            }
        }
        // random larger permutations
        let mut r = Xo::new(99);
        for _ in 0..200 {
            let n = r.usize_in(8, 300);
            let mut t: Vec<usize> = (0..n).collect();
            r.shuffle(&mut t);
            let (perm, used) = decode_shuffle(n, &words_for_permutation(&t));
            check(perm == t && used == n - 1, "words_for_permutation on a random large permutation", &mut f);
        }
    }
    // 3. extreme-draw injection fires and terminates rejection loops
    {
        use rand::seq::SliceRandom;
        let mut spec = TapeSpec::prng(5);
        spec.extreme_pm = 1000;
        let g = TapeGuard::install(&spec);
        let mut v: Vec<usize> = (0..50).collect();
        v.shuffle(&mut rand::thread_rng());
        let log = g.log();
        drop(g);
        let mut s = v.clone();
        s.sort_unstable();
        check(s == (0..50).collect::<Vec<_>>(), "extreme tape: shuffle still yields a permutation", &mut f);
        check(log.extremes > 0, "extreme tape: extremes fired", &mut f);
    }
    // 4. Brent cycle detection on synthetic digest streams
    {
        let mut det = crate::props::c10::CycleDetector::default();
        let mut found = None;
        // rho-shaped sequence: tail 13, cycle 7
        for t in 0..200u64 {
            let d = if t < 13 { 1000 + t } else { 5000 + (t - 13) % 7 };
            if let Some(l) = det.step(d) {
                found = Some((t, l));
                break;
            }
        }
        check(matches!(found, Some((_, l)) if l % 7 == 0 || l == 7), &format!("cycle detector on rho sequence: {:?}", found), &mut f);
        let mut det = crate::props::c10::CycleDetector::default();
        let mut any = false;
        for t in 0..100_000u64 {
            if det.step(super::rng::mix(&[t])).is_some() {
                any = true;
            }
        }
        check(!any, "cycle detector: no false cycle on 1e5 distinct digests", &mut f);
        let mut det = crate::props::c10::CycleDetector::default();
        det.step(5);
        check(det.step(5) == Some(1), "cycle detector: immediate fixed point", &mut f);
    }
    // 6. seam S1b: the fault plan for seeded generators
    {
        use rand::rngs::StdRng;
        use rand::{RngCore, SeedableRng};
        use rand::sim::{set_std_fault_plan, take_std_faults_fired, StdFaultPlan};
        // upstream's own value-stability vector: without a plan StdRng is upstream's, word for word
        #[rustfmt::skip]
        let seed = [1,0,0,0, 23,0,0,0, 200,1,0,0, 210,30,0,0, 0,0,0,0, 0,0,0,0, 0,0,0,0, 0,0,0,0];
        set_std_fault_plan(None);
        check(StdRng::from_seed(seed).next_u64() == 10719222850664546238, "S1b: StdRng without a plan is upstream's", &mut f);
        let plain: Vec<u64> = { let mut g = StdRng::seed_from_u64(42); (0..2000).map(|_| g.next_u64()).collect() };
        take_std_faults_fired();
        set_std_fault_plan(Some(StdFaultPlan { salt: 7, per_million: 100_000 }));
        let a: Vec<u64> = { let mut g = StdRng::seed_from_u64(42); (0..2000).map(|_| g.next_u64()).collect() };
        let fired = take_std_faults_fired();
        let b: Vec<u64> = { let mut g = StdRng::seed_from_u64(42); (0..2000).map(|_| g.next_u64()).collect() };
        check(a == b, "S1b: same seed + same plan = same stream", &mut f);
        check(fired > 100 && fired < 400, &format!("S1b: about 10% of 2000 draws replaced ({} fired)", fired), &mut f);
        let differing = a.iter().zip(&plain).filter(|(x, y)| x != y).count() as u64;
        check(differing <= fired && differing > 0, "S1b: every other word is the generator's own", &mut f);
        check(a.iter().any(|w| *w == 0) && a.iter().any(|w| *w == u64::MAX), "S1b: boundary words 0 and MAX are served", &mut f);
        set_std_fault_plan(Some(StdFaultPlan { salt: 8, per_million: 100_000 }));
        let c: Vec<u64> = { let mut g = StdRng::seed_from_u64(42); (0..2000).map(|_| g.next_u64()).collect() };
        check(c != a, "S1b: another salt hits other draws", &mut f);
        // the plan is captured at construction: a generator built under a plan keeps it, one built after clearing does not
        let mut kept = StdRng::seed_from_u64(42);
        set_std_fault_plan(None);
        let k: Vec<u64> = (0..2000).map(|_| kept.next_u64()).collect();
        check(k == c, "S1b: plan captured at construction", &mut f);
        let again: Vec<u64> = { let mut g = StdRng::seed_from_u64(42); (0..2000).map(|_| g.next_u64()).collect() };
        check(again == plain, "S1b: cleared plan restores upstream behaviour", &mut f);
        take_std_faults_fired();
    }
    if f.is_empty() {
        println!("selftest ok");
        0
    } else {
        for x in &f {
            eprintln!("SELFTEST FAILED: {}", x);
        }
        2
    }
}
