//! Adversarial comparator party (McIlroy, "A killer adversary for quicksort", 1999).
//!
//! The tree fits sort every feature column with a crate-private quicksort that is generic over the element
//! type. The simulator drives that *real* code (through the cfg-guarded wrapper `verif::quick_argsort_mut`)
//! with an element type whose comparisons are answered lazily by an adversary: every item starts as "gas"
//! (larger than everything decided so far) and is frozen to the next solid value only when the sort forces the
//! issue, always in the way that tells the sort least. The answers are consistent with one total order; the
//! frozen values are that order. Sorting the concrete values with the same deterministic code reproduces the
//! same comparison outcomes, i.e. the worst partitions this very implementation can be led into - whatever
//! the implementation in the tree under test happens to be.
use num_traits::{Float, Num, NumCast, One, ToPrimitive, Zero};
use std::cell::RefCell;
use std::cmp::Ordering;
use std::num::FpCategory;
use std::ops::{Add, Div, Mul, Neg, Rem, Sub};

struct State {
    val: Vec<usize>,
    gas: usize,
    nsolid: usize,
    candidate: usize,
    ncmp: u64,
}

thread_local! {
    static ADV: RefCell<Option<State>> = RefCell::new(None);
}

#[derive(Clone, Copy, Debug)]
pub struct Adv(pub u32);

fn cmp_items(x: usize, y: usize) -> Ordering {
    ADV.with(|s| {
        let mut g = s.borrow_mut();
        let st = g.as_mut().expect("adversary state installed");
        st.ncmp += 1;
        if x == y {
            return Ordering::Equal;
        }
        if st.val[x] == st.gas && st.val[y] == st.gas {
            let f = if x == st.candidate { x } else { y };
            st.val[f] = st.nsolid;
            st.nsolid += 1;
        }
        if st.val[x] == st.gas {
            st.candidate = x;
        } else if st.val[y] == st.gas {
            st.candidate = y;
        }
        st.val[x].cmp(&st.val[y])
    })
}

impl PartialEq for Adv {
    fn eq(&self, o: &Adv) -> bool {
        cmp_items(self.0 as usize, o.0 as usize) == Ordering::Equal
    }
}
impl PartialOrd for Adv {
    fn partial_cmp(&self, o: &Adv) -> Option<Ordering> {
        Some(cmp_items(self.0 as usize, o.0 as usize))
    }
}

// Arithmetic has no meaning for an item of an abstract total order. A sort that starts to compute with its
// elements cannot be driven by this party: the construction is abandoned (caught by the caller) and the run
// falls back to non-adversarial columns.
fn na<T>() -> T {
    panic!("adversary-item: arithmetic on an abstract item")
}
macro_rules! binop { ($($tr:ident $f:ident),*) => { $(impl $tr for Adv { type Output = Adv; fn $f(self, _o: Adv) -> Adv { na() } })* } }
binop!(Add add, Sub sub, Mul mul, Div div, Rem rem);
impl Neg for Adv {
    type Output = Adv;
    fn neg(self) -> Adv {
        na()
    }
}
impl Zero for Adv {
    fn zero() -> Adv {
        na()
    }
    fn is_zero(&self) -> bool {
        false
    }
}
impl One for Adv {
    fn one() -> Adv {
        na()
    }
}
impl Num for Adv {
    type FromStrRadixErr = ();
    fn from_str_radix(_s: &str, _r: u32) -> Result<Adv, ()> {
        Err(())
    }
}
impl ToPrimitive for Adv {
    fn to_i64(&self) -> Option<i64> {
        None
    }
    fn to_u64(&self) -> Option<u64> {
        None
    }
}
impl NumCast for Adv {
    fn from<T: ToPrimitive>(_n: T) -> Option<Adv> {
        None
    }
}
macro_rules! unary_na { ($($f:ident),*) => { $(fn $f(self) -> Adv { na() })* } }
macro_rules! const_na { ($($f:ident),*) => { $(fn $f() -> Adv { na() })* } }
impl Float for Adv {
    const_na!(nan, infinity, neg_infinity, neg_zero, min_value, min_positive_value, max_value);
    fn is_nan(self) -> bool {
        false
    }
    fn is_infinite(self) -> bool {
        false
    }
    fn is_finite(self) -> bool {
        true
    }
    fn is_normal(self) -> bool {
        true
    }
    fn classify(self) -> FpCategory {
        FpCategory::Normal
    }
    unary_na!(floor, ceil, round, trunc, fract, abs, signum, recip, sqrt, exp, exp2, ln, log2, log10, cbrt, sin, cos, tan, asin, acos, atan, exp_m1, ln_1p, sinh, cosh, tanh, asinh, acosh, atanh);
    fn is_sign_positive(self) -> bool {
        true
    }
    fn is_sign_negative(self) -> bool {
        false
    }
    fn mul_add(self, _a: Adv, _b: Adv) -> Adv {
        na()
    }
    fn powi(self, _n: i32) -> Adv {
        na()
    }
    fn powf(self, _n: Adv) -> Adv {
        na()
    }
    fn log(self, _b: Adv) -> Adv {
        na()
    }
    fn max(self, o: Adv) -> Adv {
        if self >= o { self } else { o }
    }
    fn min(self, o: Adv) -> Adv {
        if self <= o { self } else { o }
    }
    fn abs_sub(self, _o: Adv) -> Adv {
        na()
    }
    fn hypot(self, _o: Adv) -> Adv {
        na()
    }
    fn atan2(self, _o: Adv) -> Adv {
        na()
    }
    fn sin_cos(self) -> (Adv, Adv) {
        na()
    }
    fn integer_decode(self) -> (u64, i16, i8) {
        na()
    }
}

pub struct Killer {
    /// value of the item that started at position i (a permutation of 0..n: feed it to the sort as a column)
    pub values: Vec<usize>,
    /// comparisons the real sort asked for while being led (n log n for a benign order, ~n^2/4 for a quadratic one)
    pub comparisons: u64,
    /// how the construction ended: "sorted" (the real sort ran to completion), "sort-panicked" (the real code
    /// gave up on this legal order - the concrete column will show it), "abandoned" (arithmetic on items)
    pub outcome: &'static str,
}

/// Lead the tree under test's own index sort through its worst case on `n` items.
pub fn killer_for_real_sort(n: usize) -> Killer {
    ADV.with(|s| *s.borrow_mut() = Some(State { val: vec![n; n], gas: n, nsolid: 0, candidate: 0, ncmp: 0 }));
    let r = std::panic::catch_unwind(|| {
        let mut v: Vec<Adv> = (0..n as u32).map(Adv).collect();
        let _ = smartcore::verif::quick_argsort_mut(&mut v);
    });
    let st = ADV.with(|s| s.borrow_mut().take()).unwrap();
    let outcome = match &r {
        Ok(()) => "sorted",
        Err(e) => {
            let msg = e.downcast_ref::<String>().cloned().or_else(|| e.downcast_ref::<&str>().map(|s| s.to_string())).unwrap_or_default();
            if msg.contains("adversary-item") { "abandoned" } else { "sort-panicked" }
        }
    };
    // items still gaseous are larger than every solid one; give them distinct values in position order
    let mut values = st.val.clone();
    let mut next = st.nsolid;
    for v in values.iter_mut() {
        if *v == st.gas {
            *v = next;
            next += 1;
        }
    }
    Killer { values, comparisons: st.ncmp, outcome }
}
