//! Deterministic-simulation harness for smartcore-dev (see /verif/DESIGN.md).
//!
//! usage: harness run <ID> <quick|thorough>
//!        harness digest <ID> <quick|thorough>     (process-hop child)
//!        harness replay <ID> <file>
mod core;
mod props;

use crate::core::runner::{check, digest_only, install_quiet_panic_hook, replay_case, Property, Tier};

fn tier_of(s: &str) -> Tier {
    match s {
        "quick" => Tier::Quick,
        "thorough" => Tier::Thorough,
        _ => {
            eprintln!("harness error: unknown tier {}", s);
            std::process::exit(2)
        }
    }
}

fn dispatch<P: Property>(p: &P, mode: &str, arg: &str) -> i32 {
    match mode {
        "run" => crate::core::runner::supervise(p, tier_of(arg)),
        "exec" => check(p, tier_of(arg)),
        "digest" => digest_only(p, tier_of(arg)),
        "replay" => crate::core::runner::replay_supervised(p, std::path::Path::new(arg)),
        "replay-inner" => replay_case(p, std::path::Path::new(arg)),
        "case" => {
            let idx = std::env::args().nth(4).and_then(|s| s.parse().ok()).unwrap_or(0);
            crate::core::runner::one_case(p, arg, idx)
        }
        _ => {
            eprintln!("harness error: unknown mode {}", mode);
            2
        }
    }
}

fn main() {
    install_quiet_panic_hook();
    let args: Vec<String> = std::env::args().collect();
    if args.len() == 2 && args[1] == "selftest" {
        std::process::exit(crate::core::selftest::run());
    }
    if args.len() < 4 {
        eprintln!("usage: harness run|digest|replay <ID> <quick|thorough|file>");
        std::process::exit(2);
    }
    let (mode, id, arg) = (args[1].as_str(), args[2].as_str(), args[3].as_str());
    let code = match id {
        "C06" => dispatch(&props::c06::C06, mode, arg),
        "C10" => dispatch(&props::c10::C10, mode, arg),
        "C12" => dispatch(&props::c12::C12, mode, arg),
        "C16" => dispatch(&props::c16::C16, mode, arg),
        _ => {
            eprintln!("harness error: property {} has no simulation check (see MANIFEST.not_applicable)", id);
            2
        }
    };
    std::process::exit(code);
}
