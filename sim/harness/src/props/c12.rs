//! C12 — k-means centroids are cluster means; rows are assigned to the nearest centroid.
//!
//! Simulated: every `thread_rng` draw of k-means++ seeding (first index, every D² cut-off) comes
//! from the tape; an in-run probe (hook S5) fires after every tree-accelerated assignment step and
//! is judged against exhaustive search *while the run proceeds*.

use crate::core::rng::{Digest, Xo};
use crate::core::runner::{guarded, Batch, Property, Report, Tier};
use crate::core::tape::{TapeGuard, TapeSpec, Word};
use serde::{Deserialize, Serialize};
use serde_json::{json, Value};
use smartcore::api::{Predictor, UnsupervisedEstimator};
use smartcore::cluster::kmeans::{KMeans, KMeansParameters};
use smartcore::linalg::naive::dense_matrix::DenseMatrix;
use smartcore::math::num::RealNumber;
use smartcore::verif::{bbd_clustering, set_kmeans_observer, KMeansStep};
use std::cell::RefCell;
use std::collections::BTreeSet;
use std::iter::Sum;
use std::rc::Rc;

#[derive(Serialize, Deserialize, Clone, Debug, PartialEq)]
pub struct Case {
    /// "fit" (simulated) or "direct" (schedule-free call of the assignment step)
    pub mode: String,
    pub data: Vec<Vec<f64>>,
    pub k: usize,
    pub max_iter: usize,
    pub f32m: bool,
    /// direct mode: the centroid set handed to the assignment step
    pub centroids: Vec<Vec<f64>>,
    pub queries: Vec<Vec<f64>>,
    pub tape: TapeSpec,
    pub kind: String,
    /// how KMeansParameters is constructed: 0 = default().with_k().with_max_iter(), 1 = reverse order, 2 = struct literal
    #[serde(default)]
    pub ctor: u8,
    /// > 0: one more predict call with this many rows (the standard query rows repeated in a scrambled order):
    /// block-wise code meets its block boundaries (1024, 4096, 65536) only with that many rows in one call
    #[serde(default)]
    pub many: usize,
    /// 1 = the model also goes through a bincode round trip, 2 = through serde_json values, and the restored model is
    /// asked the same queries: a restored model is a model
    #[serde(default)]
    pub roundtrip: u8,
    /// matrix back end the model is fitted on and asked through: 0 = DenseMatrix, 1 = ndarray (row-major), 2 = ndarray
    /// (column-major memory layout), 3 = nalgebra DMatrix. The clauses do not depend on how the rows are stored.
    #[serde(default)]
    pub backend: u8,
    /// ask the standard rows a second time in reverse (1) / rotated (2) order, as a matrix of the same shape
    #[serde(default)]
    pub requery: u8,
}

pub struct C12;

/// the element types the checks run at. The serialisation round trip is written against the concrete types, so
/// that whatever bounds a changed tree puts on `KMeans<T>: Deserialize` are met (or fail) at f32 / f64, not at a
/// generic parameter of the harness.
pub trait Elem: RealNumber + Sum + Serialize {
    fn restore_kmeans(m: &KMeans<Self>, how: u8) -> Result<KMeans<Self>, String>;
    /// fit on the chosen matrix back end (via the inherent function or the estimator trait)
    fn kmeans_fit(rows: &[Vec<f64>], backend: u8, params: KMeansParameters, via_trait: bool) -> Result<KMeans<Self>, smartcore::error::Failed>;
    /// predict through the chosen matrix back end; labels as f64
    fn kmeans_predict(m: &KMeans<Self>, rows: &[Vec<f64>], backend: u8, via_trait: bool) -> Result<Vec<f64>, smartcore::error::Failed>;
}
macro_rules! elem {
    ($t:ty) => {
        impl Elem for $t {
            fn kmeans_fit(rows: &[Vec<f64>], backend: u8, params: KMeansParameters, via_trait: bool) -> Result<KMeans<$t>, smartcore::error::Failed> {
                use ndarray::ShapeBuilder;
                let (n, p) = (rows.len(), rows[0].len());
                let c = |i: usize, j: usize| rows[i][j] as $t;
                macro_rules! go {
                    ($m:ty, $x:expr) => {{
                        let x: $m = $x;
                        if via_trait { <KMeans<$t> as UnsupervisedEstimator<$m, KMeansParameters>>::fit(&x, params) } else { KMeans::<$t>::fit(&x, params) }
                    }};
                }
                match backend {
                    1 => go!(ndarray::Array2<$t>, ndarray::Array2::from_shape_fn((n, p), |(i, j)| c(i, j))),
                    2 => go!(ndarray::Array2<$t>, ndarray::Array2::from_shape_fn((n, p).f(), |(i, j)| c(i, j))),
                    3 => go!(nalgebra::DMatrix<$t>, nalgebra::DMatrix::from_fn(n, p, |i, j| c(i, j))),
                    _ => go!(DenseMatrix<$t>, to_t_matrix(rows)),
                }
            }
            fn kmeans_predict(m: &KMeans<$t>, rows: &[Vec<f64>], backend: u8, via_trait: bool) -> Result<Vec<f64>, smartcore::error::Failed> {
                use ndarray::ShapeBuilder;
                let (n, p) = (rows.len(), rows[0].len());
                let c = |i: usize, j: usize| rows[i][j] as $t;
                macro_rules! go {
                    ($m:ty, $v:ty, $x:expr) => {{
                        let x: $m = $x;
                        let r: Result<$v, smartcore::error::Failed> = if via_trait { Predictor::<$m, $v>::predict(m, &x) } else { m.predict(&x) };
                        r.map(|v| v.iter().map(|l| *l as f64).collect())
                    }};
                }
                match backend {
                    1 => go!(ndarray::Array2<$t>, ndarray::Array1<$t>, ndarray::Array2::from_shape_fn((n, p), |(i, j)| c(i, j))),
                    2 => go!(ndarray::Array2<$t>, ndarray::Array1<$t>, ndarray::Array2::from_shape_fn((n, p).f(), |(i, j)| c(i, j))),
                    3 => go!(nalgebra::DMatrix<$t>, nalgebra::RowDVector<$t>, nalgebra::DMatrix::from_fn(n, p, |i, j| c(i, j))),
                    _ => go!(DenseMatrix<$t>, Vec<$t>, to_t_matrix(rows)),
                }
            }
            fn restore_kmeans(m: &KMeans<$t>, how: u8) -> Result<KMeans<$t>, String> {
                if how == 1 {
                    bincode::serialize(m).map_err(|e| e.to_string()).and_then(|b| bincode::deserialize::<KMeans<$t>>(&b).map_err(|e| e.to_string()))
                } else {
                    serde_json::to_value(m).map_err(|e| e.to_string()).and_then(|v| serde_json::from_value::<KMeans<$t>>(v).map_err(|e| e.to_string()))
                }
            }
        }
    };
}
elem!(f32);
elem!(f64);


struct Tol {
    /// unit roundoff of the element type times a safety factor
    eps_k: f64,
    s: f64,
    p: f64,
    sum: f64,
    mean: f64,
    dist_rel: f64,
    e_sum: f64,
    e_mean: f64,
    n: f64,
}

/// largest magnitude in one column of the data
fn col_scale(data: &[Vec<f64>], c: usize) -> f64 {
    data.iter().map(|r| r[c].abs()).filter(|v| v.is_finite()).fold(0.0, f64::max)
}

impl Tol {
    /// sums and means are per-coordinate quantities: a column's sum over its rows carries roundings of THAT
    /// column's magnitude only (a fine column next to a column of magnitude 1e8 is judged on its own scale)
    fn sum_c(&self, s_c: f64) -> f64 {
        (self.e_sum * s_c * self.n + 4e-10 * self.n).min(self.sum)
    }
    fn mean_c(&self, s_c: f64) -> f64 {
        (self.e_mean * s_c + 4e-10).min(self.mean)
    }
    /// How much farther than the nearest centroid an attached centroid may be, given the two squared
    /// distances. Condition-aware: the implementation subtracts coordinates of magnitude <= s whose stored
    /// values (centroids are rounded means) carry an absolute error ~eps*s, so a squared distance d2 carries
    /// ~eps*(s*sqrt(d2) + d2) — NOT eps*s^2, which would hide cancellation bugs on data far from the origin.
    fn d2(&self, mine: f64, best: f64) -> f64 {
        let m = mine.max(best);
        let merge = 2e-10; // BBD leaf-merge radius, see below
        self.eps_k * self.p * (self.s * m.sqrt() + m) + 4.0 * merge * (m.sqrt() + merge) * self.p + self.eps_k * self.eps_k * self.s * self.s
    }
}

fn scale_of(data: &[Vec<f64>], cents: &[Vec<f64>]) -> f64 {
    let mut s = 0.0f64;
    for r in data.iter().chain(cents.iter()) {
        for v in r {
            if v.is_finite() {
                s = s.max(v.abs());
            }
        }
    }
    s
}

fn tol_for(f32m: bool, s: f64, n: usize, p: usize) -> Tol {
    // (safety factor x unit roundoff, sums, means, distortion)
    let (eps_k, e_sum, e_mean, e_dist) = if f32m {
        (4096.0 * f32::EPSILON as f64, 2e-4, 1e-4, 5e-3)
    } else {
        (4096.0 * f64::EPSILON, 2e-13, 2e-13, 1e-6)
    };
    // The BBD tree merges the points of a box whose half-width is below an ABSOLUTE 1e-10 into one leaf and
    // represents them by its first point (a design approximation inherited by the library). Two distinct
    // rows closer than 2e-10 therefore shift sums and means by up to 2e-10 per merged row. That is not a
    // violation of the property at any scale the workload generates (|x| >= ~1e-2), so every tolerance
    // carries that absolute term.
    let merge = 2e-10;
    Tol {
        eps_k,
        s,
        p: p as f64,
        sum: e_sum * s * n as f64 + 2.0 * merge * n as f64,
        mean: e_mean * s + 2.0 * merge,
        dist_rel: e_dist,
        e_sum,
        e_mean,
        n: n as f64,
    }
}

fn d2(a: &[f64], b: &[f64]) -> f64 {
    a.iter().zip(b).map(|(x, y)| (x - y) * (x - y)).sum()
}

fn distinct_rows(data: &[Vec<f64>]) -> usize {
    let mut s: BTreeSet<Vec<u64>> = BTreeSet::new();
    for r in data {
        s.insert(r.iter().map(|v| (v + 0.0).to_bits()).collect());
    }
    s.len()
}

/// the reference model of one assignment step: exhaustive search
/// returns Err((class, detail)) on the first discrepancy; updates measured maxima in `rep`
fn judge_step(
    data: &[Vec<f64>],
    cents: &[Vec<f64>],
    sums: &[Vec<f64>],
    size: &[usize],
    y: &[usize],
    distortion: f64,
    f32m: bool,
    rep: &mut Report,
) -> Result<(), (&'static str, String)> {
    let n = data.len();
    let p = data[0].len();
    let k = cents.len();
    for (j, c) in cents.iter().enumerate() {
        if c.len() != p || c.iter().any(|v| !v.is_finite()) {
            return Err(("nan-centroid", format!("centroid {} = {:?} is not finite", j, c)));
        }
    }
    let s = scale_of(data, cents);
    let tol = tol_for(f32m, s, n, p);
    if y.len() != n || size.len() != k || sums.len() != k {
        return Err(("shape", format!("assignment has {} rows / {} sizes / {} sums for n={}, k={}", y.len(), size.len(), sums.len(), n, k)));
    }
    let mut cnt = vec![0usize; k];
    let mut ref_sums = vec![vec![0.0f64; p]; k];
    let mut ref_dist = 0.0f64;
    for i in 0..n {
        if y[i] >= k {
            return Err(("shape", format!("row {} assigned to cluster {} >= k={}", i, y[i], k)));
        }
        let mine = d2(&data[i], &cents[y[i]]);
        let mut best = f64::INFINITY;
        let mut bj = 0;
        for j in 0..k {
            let dj = d2(&data[i], &cents[j]);
            if dj < best {
                best = dj;
                bj = j;
            }
        }
        ref_dist += best;
        let excess = mine - best;
        let allowed = tol.d2(mine, best);
        if allowed > 0.0 {
            rep.max(if f32m { "assign_excess_over_allowed_f32" } else { "assign_excess_over_allowed_f64" }, excess / allowed);
        }
        if excess > allowed {
            return Err((
                "not-nearest",
                format!(
                    "row {} {:?} attached to centroid {} at squared distance {:e} but centroid {} is at {:e} (excess {:e} > tol {:e})",
                    i, data[i], y[i], mine, bj, best, excess, allowed
                ),
            ));
        }
        cnt[y[i]] += 1;
        for c in 0..p {
            ref_sums[y[i]][c] += data[i][c];
        }
    }
    if cnt != size {
        return Err(("size-mismatch", format!("reported counts {:?} but the assignment has {:?}", size, cnt)));
    }
    if size.iter().sum::<usize>() != n {
        return Err(("size-mismatch", format!("counts {:?} do not sum to n={}", size, n)));
    }
    // a cluster's sum is a sum over its members: it carries roundings of the members' magnitudes only (one row of 1e20
    // in another cluster must not excuse an error of 1e4 in this one)
    let mut member_scale = vec![vec![0.0f64; p]; k];
    for i in 0..n {
        for c in 0..p {
            if data[i][c].is_finite() {
                member_scale[y[i]][c] = member_scale[y[i]][c].max(data[i][c].abs());
            }
        }
    }
    for j in 0..k {
        for c in 0..p {
            let e = (sums[j][c] - ref_sums[j][c]).abs();
            let tsum = tol.sum_c(member_scale[j][c]);
            if s > 0.0 {
                rep.max(if f32m { "sum_err_rel_f32" } else { "sum_err_rel_f64" }, e / (s * n as f64));
                rep.max(if f32m { "sum_err_over_member_tol_f32" } else { "sum_err_over_member_tol_f64" }, e / tsum);
            }
            if !(e <= tsum) {
                return Err((
                    "sum-mismatch",
                    format!("cluster {} coordinate {}: reported sum {:e}, sum over its rows {:e} (tol {:e})", j, c, sums[j][c], ref_sums[j][c], tsum),
                ));
            }
        }
    }
    let derr = (distortion - ref_dist).abs();
    let dden = ref_dist.abs().max(tol.d2(ref_dist / n as f64, 0.0) * n as f64).max(f64::MIN_POSITIVE);
    // the tree computes the distortion from node sums (count * |mean - c|^2 + stored cost): for data far from
    // the origin the means carry an absolute error ~eps*s, i.e. sum_i 2*sqrt(d2_i)*eps*s <= 2*eps*s*sqrt(n*dist)
    // + the effect of leaf merging (every merged row may move by up to 2e-10)
    let merge = 2e-10;
    let dallow = tol.dist_rel * dden + 4.0 * tol.eps_k * tol.s * (n as f64 * ref_dist.abs()).sqrt() + 4.0 * merge * ((n as f64 * ref_dist.abs()).sqrt() + n as f64 * merge);
    rep.max(if f32m { "distortion_err_over_allowed_f32" } else { "distortion_err_over_allowed_f64" }, derr / dallow.max(f64::MIN_POSITIVE));
    if !(derr <= dallow) {
        return Err((
            "distortion-mismatch",
            format!("reported distortion {:e}, exhaustive search gives {:e} (rel err {:e})", distortion, ref_dist, derr / dden),
        ));
    }
    Ok(())
}

fn to_t_matrix<T: RealNumber>(data: &[Vec<f64>]) -> DenseMatrix<T> {
    let n = data.len();
    let p = data[0].len();
    let v: Vec<T> = data.iter().flat_map(|r| r.iter().map(|x| T::from_f64(*x).unwrap())).collect();
    DenseMatrix::from_array(n, p, &v)
}

fn val_rows(v: &Value) -> Vec<Vec<f64>> {
    v.as_array()
        .map(|a| {
            a.iter()
                .map(|r| r.as_array().map(|rr| rr.iter().map(|x| x.as_f64().unwrap_or(f64::NAN)).collect()).unwrap_or_default())
                .collect()
        })
        .unwrap_or_default()
}
fn val_usizes(v: &Value) -> Vec<usize> {
    v.as_array().map(|a| a.iter().map(|x| x.as_u64().unwrap_or(u64::MAX) as usize).collect()).unwrap_or_default()
}

struct ObsGuard;
impl Drop for ObsGuard {
    fn drop(&mut self) {
        set_kmeans_observer(None);
    }
}

#[derive(Default)]
struct StepLog {
    steps: u64,
    first_bad: Option<(u64, &'static str, String)>,
    first_centroids_nan: bool,
    first_centroid_digest: u64,
    empty_cluster_steps: u64,
    was_empty: Vec<bool>,
    repopulated: bool,
    digest: Digest,
    states: Vec<u64>,
    maxima: Report,
}

impl C12 {
    fn run_fit<T: Elem>(&self, case: &Case, rep: &mut Report) {
        let data = &case.data;
        let n = data.len();
        let p = data[0].len();
        let slog = Rc::new(RefCell::new(StepLog::default()));
        let guard = TapeGuard::install(&case.tape);
        let res = {
            let sl = slog.clone();
            let data2 = data.clone();
            let f32m = case.f32m;
            set_kmeans_observer(Some(Box::new(move |st: KMeansStep| {
                let mut l = sl.borrow_mut();
                l.steps += 1;
                let step_no = l.steps;
                // event log
                for c in &st.centroids {
                    l.digest.f64s(c);
                }
                l.digest.usizes(&st.y).usizes(&st.size).f64(st.distortion);
                if step_no == 1 {
                    let mut cd = Digest::new();
                    for c in &st.centroids {
                        cd.f64s(c);
                    }
                    l.first_centroid_digest = cd.get();
                    l.first_centroids_nan = st.centroids.iter().any(|c| c.iter().any(|v| !v.is_finite()));
                }
                if st.size.iter().any(|s| *s == 0) {
                    l.empty_cluster_steps += 1;
                }
                if l.was_empty.len() != st.size.len() {
                    l.was_empty = vec![false; st.size.len()];
                }
                for (j, sz) in st.size.iter().enumerate() {
                    if *sz == 0 {
                        l.was_empty[j] = true;
                    } else if l.was_empty[j] {
                        l.repopulated = true;
                    }
                }
                if l.states.len() < 64 {
                    let mut sd = Digest::new();
                    sd.usizes(&st.y);
                    for c in &st.centroids {
                        for v in c {
                            sd.f64((*v * 1e6).round());
                        }
                    }
                    l.states.push(sd.get());
                }
                // in-run invariant against the centroids that were actually used for this assignment
                if l.first_bad.is_none() {
                    let mut tmp = std::mem::take(&mut l.maxima);
                    let r = judge_step(&data2, &st.centroids, &st.sums, &st.size, &st.y, st.distortion, f32m, &mut tmp);
                    l.maxima = tmp;
                    if let Err((c, m)) = r {
                        l.first_bad = Some((step_no, c, m));
                    }
                }
            })));
            let _og = ObsGuard;
            guarded(|| {
                let params = match case.ctor % 3 {
                    0 => KMeansParameters::default().with_k(case.k).with_max_iter(case.max_iter),
                    1 => KMeansParameters::default().with_max_iter(case.max_iter).with_k(case.k),
                    _ => KMeansParameters { k: case.k, max_iter: case.max_iter },
                };
                // ctor / 3: the inherent functions or the estimator traits of smartcore::api
                // (half of the time the value handed over is a clone of the one that was built)
                let params = if case.tape.seed % 2 == 1 { params.clone() } else { params };
                T::kmeans_fit(data, case.backend, params, case.ctor / 3 == 1)
            })
        };
        let log = guard.log();
        drop(guard);
        let sl = slog.borrow();
        rep.tape = log.words.clone();
        rep.count("steps.rng_words", log.words.len() as u64);
        rep.count("steps.lloyd_iterations", sl.steps);
        rep.count("fault.extreme-draw", log.extremes);
        rep.count("fault.prng-schedule", (log.from_prng > 0) as u64);
        rep.count("fault.forced-draw", (log.from_prefix > 0 && case.kind != "literal") as u64);
        rep.count("probe.empty-cluster-mid-run", (sl.empty_cluster_steps > 0) as u64);
        rep.count("probe.empty-cluster-repopulated-later", sl.repopulated as u64);
        rep.count("probe.initial-empty-cluster", sl.first_centroids_nan as u64);
        rep.count("probe.early-stop-taken", (sl.steps > 0 && (sl.steps as usize) < case.max_iter) as u64);
        rep.count("probe.iteration-limit-hit", (sl.steps as usize == case.max_iter) as u64);
        for (k, v) in &sl.maxima.maxima {
            rep.max(k, *v);
        }
        rep.states = sl.states.clone();
        let mut d = Digest::new();
        d.u64(log.digest()).u64(sl.digest.get()).u64(sl.steps);

        // the cut-off draws are the last k-1 words served (the index draw before them may have been rejected and retried)
        let zero_cutoff = log.words.iter().rev().take(case.k.saturating_sub(1)).any(|w: &Word| (w.1 >> 11) == 0);
        let seeding_cause = if zero_cutoff { "seeding-empty-cluster:zero-cutoff-reselects-chosen-row" } else { "seeding-empty-cluster:other" };

        if let Some((step, class, msg)) = &sl.first_bad {
            let cause = if *class == "nan-centroid" {
                if sl.first_centroids_nan { seeding_cause } else { "mid-run" }
            } else {
                "assignment-step"
            };
            rep.fail(class, cause, format!("KMeans::fit(n={}, p={}, k={}, max_iter={}, f32={}): at Lloyd step {}: {}", n, p, case.k, case.max_iter, case.f32m, step, msg));
        }
        match res {
            Err(msg) => rep.fail("panic", "fit", format!("KMeans::fit(n={}, k={}) panicked: {}", n, case.k, msg)),
            Ok(Err(e)) => rep.fail("fit-error", "fit", format!("KMeans::fit(n={}, k={}, max_iter={}) returned an error on valid input: {}", n, case.k, case.max_iter, e)),
            Ok(Ok(model)) => {
                let v = serde_json::to_value(&model).unwrap_or(Value::Null);
                let cents = val_rows(&v["centroids"]);
                let size = val_usizes(&v["size"]);
                let y = val_usizes(&v["_y"]);
                let kk = v["k"].as_u64().unwrap_or(0) as usize;
                for c in &cents {
                    d.f64s(c);
                }
                d.usizes(&size).usizes(&y);
                let ctx = format!("KMeans::fit(n={}, p={}, k={}, max_iter={}, f32={}, matrix={})", n, p, case.k, case.max_iter, case.f32m, ["DenseMatrix", "ndarray", "ndarray(column-major)", "nalgebra"][(case.backend % 4) as usize]);
                rep.count(["steps.fits-on-dense-matrix", "steps.fits-on-ndarray", "steps.fits-on-ndarray-column-major", "steps.fits-on-nalgebra"][(case.backend % 4) as usize], 1);
                let s = scale_of(data, &cents);
                let tol = tol_for(case.f32m, s, n, p);
                if kk != case.k || cents.len() != case.k || size.len() != case.k || y.len() != n {
                    rep.fail("shape", "model", format!("{}: model has k={}, {} centroids, {} sizes, {} labels", ctx, kk, cents.len(), size.len(), y.len()));
                } else if let Some(j) = cents.iter().position(|c| c.len() != p || c.iter().any(|v| !v.is_finite())) {
                    let cause = if sl.first_centroids_nan { seeding_cause } else { "mid-run" };
                    rep.fail("nan-centroid", cause, format!("{}: fitted centroid {} = {:?} is not finite (sizes {:?})", ctx, j, cents[j], size));
                } else {
                    let mut cnt = vec![0usize; case.k];
                    let mut sums = vec![vec![0.0; p]; case.k];
                    let mut okk = true;
                    for i in 0..n {
                        if y[i] >= case.k {
                            rep.fail("shape", "model", format!("{}: row {} labelled {}", ctx, i, y[i]));
                            okk = false;
                            break;
                        }
                        cnt[y[i]] += 1;
                        for c in 0..p {
                            sums[y[i]][c] += data[i][c];
                        }
                    }
                    if okk {
                        if cnt != size || size.iter().sum::<usize>() != n {
                            rep.fail("size-mismatch", "model", format!("{}: reported sizes {:?}, last assignment has {:?}", ctx, size, cnt));
                        }
                        for j in 0..case.k {
                            if cnt[j] > 0 {
                                for c in 0..p {
                                    let mean = sums[j][c] / cnt[j] as f64;
                                    let e = (cents[j][c] - mean).abs();
                                    // judged on the scale of the cluster's own members in this column
                                    let ms = (0..n).filter(|i| y[*i] == j && data[*i][c].is_finite()).map(|i| data[i][c].abs()).fold(0.0f64, f64::max);
                                    if s > 0.0 {
                                        rep.max(if case.f32m { "centroid_mean_err_rel_f32" } else { "centroid_mean_err_rel_f64" }, e / s);
                                        rep.max(if case.f32m { "centroid_mean_err_over_member_tol_f32" } else { "centroid_mean_err_over_member_tol_f64" }, e / tol.mean_c(ms));
                                    }
                                    if !(e <= tol.mean_c(ms)) {
                                        rep.fail(
                                            "centroid-not-mean",
                                            "model",
                                            format!("{}: centroid {} coordinate {} = {:e} but the mean of its {} rows is {:e}", ctx, j, c, cents[j][c], cnt[j], mean),
                                        );
                                    }
                                }
                            }
                        }
                        // predict on training rows and fresh rows
                        let mut q = data.clone();
                        q.extend(case.queries.iter().cloned());
                        // the model's own centroids are queries too (each must come back at distance zero,
                        // also the stale centroid of a cluster that ended up without rows)
                        q.extend(cents.iter().cloned());
                        let s2 = scale_of(&q, &cents);
                        let tol2 = tol_for(case.f32m, s2, n, p);
                        // every label must name a centroid at minimal distance from its row (src: row of q behind each label)
                        let judge = |what: &str, rep: &mut Report, lab: &[f64], src: &[usize]| {
                            if lab.len() != src.len() {
                                rep.fail("shape", "predict", format!("{}: {}: predict returned {} labels for {} rows", ctx, what, lab.len(), src.len()));
                                return;
                            }
                            for (i, l) in lab.iter().enumerate() {
                                let row = &q[src[i]];
                                if !(l.fract() == 0.0 && *l >= 0.0 && (*l as usize) < case.k) {
                                    rep.fail("shape", "predict", format!("{}: {}: predict returned label {} for row {}", ctx, what, l, i));
                                    break;
                                }
                                let mine = d2(row, &cents[*l as usize]);
                                let best = cents.iter().map(|c| d2(row, c)).fold(f64::INFINITY, f64::min);
                                let allowed = tol2.d2(mine, best);
                                if allowed > 0.0 {
                                    rep.max(if case.f32m { "predict_excess_over_allowed_f32" } else { "predict_excess_over_allowed_f64" }, (mine - best) / allowed);
                                }
                                if mine - best > allowed {
                                    rep.fail(
                                        "predict-not-nearest",
                                        "predict",
                                        format!("{}: {}: predict put row {} of {} ({:?}) into cluster {} at squared distance {:e}; the nearest centroid is at {:e}", ctx, what, i, src.len(), row, l, mine, best),
                                    );
                                    break;
                                }
                            }
                        };
                        let ident: Vec<usize> = (0..q.len()).collect();
                        match guarded(|| T::kmeans_predict(&model, &q, case.backend, case.ctor / 3 == 1)) {
                            Err(msg) => rep.fail("panic", "predict", format!("{}: predict panicked: {}", ctx, msg)),
                            Ok(Err(e)) => rep.fail("predict-error", "predict", format!("{}: predict failed: {}", ctx, e)),
                            Ok(Ok(lab)) => {
                                d.f64s(&lab);
                                judge("standard call", rep, &lab, &ident);
                            }
                        }
                        if case.requery > 0 && rep.violation.is_none() {
                            let m = q.len();
                            let src: Vec<usize> = if case.requery == 1 { (0..m).rev().collect() } else { (0..m).map(|j| (j + 1 + (case.tape.seed % m as u64) as usize) % m).collect() };
                            let again: Vec<Vec<f64>> = src.iter().map(|s| q[*s].clone()).collect();
                            rep.count("fault.same-rows-asked-again-in-another-order", 1);
                            match guarded(|| T::kmeans_predict(&model, &again, case.backend, false)) {
                                Err(msg) => rep.fail("panic", "predict", format!("{}: second query panicked: {}", ctx, msg)),
                                Ok(Err(e)) => rep.fail("predict-error", "predict", format!("{}: second query failed: {}", ctx, e)),
                                Ok(Ok(lab)) => judge("the same rows in another order", rep, &lab, &src),
                            }
                        }
                        // the model is plain data: asked from another (fresh) thread it must answer the same way
                        if case.requery > 0 && case.tape.seed % 3 == 0 && rep.violation.is_none() {
                            rep.count("fault.model-asked-from-another-thread", 1);
                            // (lent to one other thread while this one waits in join: no Sync bound is demanded from the model)
                            struct Lend<P>(P);
                            unsafe impl<P> Send for Lend<P> {}
                            let lent = Lend((&model as *const KMeans<T>, &q as *const Vec<Vec<f64>>));
                            let be = case.backend;
                            let r = std::thread::scope(|sc| {
                                sc.spawn(move || {
                                    let l = lent;
                                    let (mref, qref) = unsafe { (&*(l.0).0, &*(l.0).1) };
                                    guarded(|| T::kmeans_predict(mref, qref, be, false))
                                })
                                .join()
                            });
                            match r {
                                Ok(Ok(Ok(lab))) => judge("asked from another thread", rep, &lab, &ident),
                                Ok(Ok(Err(e))) => rep.fail("predict-error", "predict", format!("{}: predict on another thread failed: {}", ctx, e)),
                                Ok(Err(msg)) => rep.fail("panic", "predict", format!("{}: predict on another thread panicked: {}", ctx, msg)),
                                Err(_) => rep.fail("panic", "predict", format!("{}: predict on another thread panicked", ctx)),
                            }
                        }
                        if case.many > 0 && rep.violation.is_none() {
                            let m = q.len();
                            let stride = 1 + (case.tape.seed % 7) as usize;
                            let off = (case.tape.seed / 7 % m as u64) as usize;
                            let src: Vec<usize> = (0..case.many).map(|j| (j * stride + off + j / m) % m).collect();
                            let big: Vec<Vec<f64>> = src.iter().map(|s| q[*s].clone()).collect();
                            rep.count("fault.many-rows-in-one-call", 1);
                            rep.count("steps.rows-in-many-row-calls", src.len() as u64);
                            match guarded(|| T::kmeans_predict(&model, &big, case.backend, false)) {
                                Err(msg) => rep.fail("panic", "predict", format!("{}: predict on {} rows panicked: {}", ctx, src.len(), msg)),
                                Ok(Err(e)) => rep.fail("predict-error", "predict", format!("{}: predict on {} rows failed: {}", ctx, src.len(), e)),
                                Ok(Ok(lab)) => judge(&format!("one call with {} rows", src.len()), rep, &lab, &src),
                            }
                        }
                        if case.roundtrip > 0 && rep.violation.is_none() {
                            let restored: Result<KMeans<T>, String> = T::restore_kmeans(&model, case.roundtrip);
                            rep.count("fault.model-restored-from-serialised-form", 1);
                            match restored {
                                Err(e) => rep.fail("restore-failed", "model", format!("{}: the fitted model does not survive serialisation: {}", ctx, e)),
                                Ok(m2) => match guarded(|| T::kmeans_predict(&m2, &q, case.backend, false)) {
                                    Err(msg) => rep.fail("panic", "predict", format!("{}: restored model: predict panicked: {}", ctx, msg)),
                                    Ok(Err(e)) => rep.fail("predict-error", "predict", format!("{}: restored model: predict failed: {}", ctx, e)),
                                    Ok(Ok(lab)) => judge("restored model", rep, &lab, &ident),
                                },
                            }
                        }
                    }
                }
            }
        }
        if sl.steps >= 2 {
            let mut sd = Digest::new();
            sd.u64(sl.first_centroid_digest).usize(case.k);
            rep.schedule = Some(sd.get());
        }
        rep.log_digest = d.get();
    }

    fn run_direct<T: RealNumber + Sum + Serialize>(&self, case: &Case, rep: &mut Report) {
        let data = &case.data;
        let x: DenseMatrix<T> = to_t_matrix(data);
        // centroids rounded to T first so that oracle and implementation see the same numbers
        let cents_t: Vec<Vec<T>> = case.centroids.iter().map(|c| c.iter().map(|v| T::from_f64(*v).unwrap()).collect()).collect();
        let cents: Vec<Vec<f64>> = cents_t.iter().map(|c| c.iter().map(|v| v.to_f64().unwrap()).collect()).collect();
        let mut d = Digest::new();
        match guarded(|| bbd_clustering(&x, &cents_t)) {
            Err(msg) => rep.fail("panic", "direct", format!("assignment step (n={}, k={}) panicked: {}", data.len(), cents.len(), msg)),
            Ok((sums, counts, memb, dist)) => {
                let sums: Vec<Vec<f64>> = sums.iter().map(|r| r.iter().map(|v| v.to_f64().unwrap_or(f64::NAN)).collect()).collect();
                let dist = dist.to_f64().unwrap_or(f64::NAN);
                for r in &sums {
                    d.f64s(r);
                }
                d.usizes(&counts).usizes(&memb).f64(dist);
                if let Err((c, m)) = judge_step(data, &cents, &sums, &counts, &memb, dist, case.f32m, rep) {
                    rep.fail(c, "direct-assignment-step", format!("assignment step with given centroids (n={}, p={}, k={}, f32={}, {}): {}", data.len(), data[0].len(), cents.len(), case.f32m, case.kind, m));
                }
                let mut sd = Digest::new();
                sd.usizes(&memb);
                rep.states.push(sd.get());
            }
        }
        rep.count("steps.direct_assignment_calls", 1);
        rep.log_digest = d.get();
    }
}

// ------------------------------------------------------------------------------------------
// workload
// ------------------------------------------------------------------------------------------

fn gen_data(r: &mut Xo, n: usize, p: usize, f32m: bool) -> (Vec<Vec<f64>>, &'static str) {
    let kind = r.below(8);
    // scales down to 1e-4: blob spreads are then >= 1e-6, still 10000x the tree's absolute 1e-10 merge radius
    let scale = *r.pick(&[0.01, 1.0, 1.0, 10.0, 1000.0, 1e-4]);
    // sometimes a range whose squares are still far from overflow but whose fourth powers are not (the property
    // sets no bound on magnitude): 3e10 in single (far-away centroids and queries, up to 1e6 ranges out, must still have finite squares), 1e100 in double precision
    let scale = if r.chance(0.04) { if f32m { 3e10 } else { 1e100 } } else { scale };
    let offset = if r.chance(0.3) { scale * r.range(-20.0, 20.0) } else { 0.0 };
    let mut data: Vec<Vec<f64>> = Vec::with_capacity(n);
    let name;
    match kind {
        0 => {
            name = "uniform";
            for _ in 0..n {
                data.push((0..p).map(|_| offset + scale * r.range(-1.0, 1.0)).collect());
            }
        }
        1 => {
            name = "lattice";
            let l = r.usize_in(1, 5) as u64;
            for _ in 0..n {
                data.push((0..p).map(|_| r.below(l + 1) as f64).collect());
            }
        }
        2 => {
            name = "blobs";
            let c = r.usize_in(2, 6);
            let centers: Vec<Vec<f64>> = (0..c).map(|_| (0..p).map(|_| offset + scale * r.range(-1.0, 1.0)).collect()).collect();
            let spread = scale * *r.pick(&[0.01, 0.05, 0.3]);
            for _ in 0..n {
                let ce = &centers[r.below(c as u64) as usize];
                data.push(ce.iter().map(|m| m + spread * r.gaussish()).collect());
            }
        }
        3 => {
            name = "half-copies";
            let h = (n / 2).max(1);
            for _ in 0..h {
                data.push((0..p).map(|_| offset + scale * r.range(-1.0, 1.0)).collect());
            }
            while data.len() < n {
                let src = r.below(data.len() as u64) as usize;
                data.push(data[src].clone());
            }
        }
        5 => {
            name = "decimal-lattice";
            // multiples of 0.1 (or 1/3): not exactly representable, so sums and means depend on the order of
            // summation in the last ulp while distances tie up to rounding
            let step = *r.pick(&[0.1, 0.1, 1.0 / 3.0, 0.7]);
            let l = r.usize_in(2, 9) as u64;
            for _ in 0..n {
                data.push((0..p).map(|_| r.below(l + 1) as f64 * step).collect());
            }
        }
        7 => {
            name = "geometric-axes";
            // rows b^-i along the coordinate axes: every split of the tree peels off about one row, so the tree
            // gets as deep as there are rows
            let b = *r.pick(&[2.0f64, 2.5, 3.0]);
            let imax = (1e5f64.ln() / b.ln()).floor() as usize;
            for t in 0..n {
                let j = t % p;
                let i = (t / p) % (imax + 1);
                let mut row = vec![0.0; p];
                row[j] = scale.max(1.0) * b.powi(-(i as i32));
                data.push(row);
            }
        }
        6 => {
            name = "skewed-lattice";
            // few distinct values with very unequal multiplicities (e.g. 0,0,0,0,1,10,10,11)
            let vals: Vec<f64> = (0..r.usize_in(2, 5)).map(|_| r.below(12) as f64).collect();
            for _ in 0..n {
                data.push((0..p).map(|_| if r.chance(0.7) { vals[0] } else { *r.pick(&vals) }).collect());
            }
        }
        _ => {
            name = "half-lattice";
            // integer lattice with one coordinate at .5 steps: exact mid-point ties
            for _ in 0..n {
                data.push((0..p).map(|_| r.below(7) as f64 * 0.5).collect());
            }
        }
    }
    // negative zero compares equal to zero (lattice data)
    if r.chance(0.05) {
        for row in data.iter_mut() {
            for v in row.iter_mut() {
                if *v == 0.0 && r.chance(0.5) {
                    *v = -0.0;
                }
            }
        }
    }
    // sometimes mirror values at random: lattices become symmetric about zero (sign-coded columns, box centres and
    // centroids that are exactly 0.0, coordinates that cancel in sums)
    if r.chance(0.15) {
        for row in data.iter_mut() {
            for v in row.iter_mut() {
                if r.chance(0.5) {
                    *v = -*v;
                }
            }
        }
    }
    // sometimes the first column holds neighbouring floats far from the origin (base + 0..3 ulp: the midpoint of two
    // of them rounds onto one of them, a split there is degenerate) while the other columns vary on a scale BELOW that
    // ulp, yet far above the tree's absolute merge radius: rows that differ visibly only in the fine columns
    let mut name = name;
    if p > 1 && r.chance(0.06) {
        let base: f64 = if f32m { *r.pick(&[1.0e4, 3.0e5, -2.5e4]) } else { *r.pick(&[1.0e8, 3.0e9, -2.5e8]) };
        let ulp = if f32m { (f32::from_bits((base as f32).to_bits() + 1) - base as f32).abs() as f64 } else { (f64::from_bits(base.to_bits() + 1) - base).abs() };
        for row in data.iter_mut() {
            row[0] = base + r.below(4) as f64 * ulp * base.signum();
            for v in row.iter_mut().skip(1) {
                *v = r.below(4) as f64 * 0.25 * ulp;
            }
        }
        name = "ulp-column+fine-columns";
    }
    // sometimes one column is constant (a box that is flat in that dimension at every level of the tree)
    if p > 1 && r.chance(0.1) {
        let col = r.below(p as u64) as usize;
        let v = data[0][col];
        for row in data.iter_mut() {
            row[col] = v;
        }
    }
    // sometimes give every column its own scale and offset (exactly representable factors keep lattices exact)
    if r.chance(0.25) {
        let cs: Vec<f64> = (0..p).map(|_| *r.pick(&[0.125, 1.0, 4.0, 64.0, 1024.0])).collect();
        let co: Vec<f64> = (0..p).map(|_| if f32m { *r.pick(&[0.0, 0.0, -512.0, 4096.0]) } else { *r.pick(&[0.0, 0.0, -512.0, 4096.0, 1048576.0, 134217728.0]) }).collect();
        for row in data.iter_mut() {
            for (j, v) in row.iter_mut().enumerate() {
                *v = *v * cs[j] + co[j];
            }
        }
    }
    // sometimes one row is an outlier by many orders of magnitude in one column (a sentinel value, a unit mix-up): the
    // other clusters' sums and means must not feel it (their members are judged on their own scale)
    if data.len() >= 3 && r.chance(0.04) {
        let i = r.below(data.len() as u64) as usize;
        let c = r.below(p as u64) as usize;
        let f = if f32m { 1e8 } else { *r.pick(&[1e17, 1e20]) };
        let sign = if r.chance(0.5) { -1.0 } else { 1.0 };
        data[i][c] = sign * data[i][c].abs().max(1.0).min(1e3) * f;
    }
    if f32m {
        for row in data.iter_mut() {
            for v in row.iter_mut() {
                *v = *v as f32 as f64;
            }
        }
    }
    (data, name)
}

/// number of distinct rows as the element type sees them
fn distinct_rows_t(data: &[Vec<f64>], f32m: bool) -> usize {
    if f32m {
        let d: Vec<Vec<f64>> = data.iter().map(|r| r.iter().map(|v| *v as f32 as f64).collect()).collect();
        distinct_rows(&d)
    } else {
        distinct_rows(data)
    }
}

fn ensure_distinct(data: &mut Vec<Vec<f64>>, k: &mut usize, f32m: bool) {
    let mut dn = distinct_rows_t(data, f32m);
    if dn < 2 {
        // make the last row differ in the element type (a +1.0 step is below the resolution of large f32 values)
        let last = data.len() - 1;
        let v = data[last][0];
        let step = (v.abs() * if f32m { 1e-3 } else { 1e-9 }).max(1.0);
        data[last][0] = if f32m { (v + step) as f32 as f64 } else { v + step };
        dn = distinct_rows_t(data, f32m);
    }
    if *k > dn {
        *k = dn.max(2);
    }
}

/// small fixed data sets for the exhaustive-initialisation batch
fn tiny_datasets() -> Vec<Vec<Vec<f64>>> {
    vec![
        vec![vec![0.0], vec![1.0], vec![5.0], vec![6.0]],
        vec![vec![0.0], vec![0.0], vec![1.0], vec![10.0], vec![10.0]],
        vec![vec![0.0, 0.0], vec![0.0, 1.0], vec![1.0, 0.0], vec![1.0, 1.0], vec![5.0, 5.0]],
        vec![vec![-1.5], vec![0.1], vec![0.2], vec![0.3], vec![2.5], vec![2.5]],
        vec![vec![0.0, 0.0], vec![2.0, 0.0], vec![1.0, 0.0], vec![1.0, 3.0], vec![1.0, -3.0], vec![0.0, 0.0]],
        vec![vec![0.1, 0.7], vec![0.3, 0.7], vec![0.2, 0.1], vec![0.9, 0.4], vec![0.9, 0.5], vec![0.5, 0.5]],
    ]
}

/// (data set, k, chosen row for every seeding step)
fn tiny_plans() -> &'static Vec<(usize, usize, Vec<usize>)> {
    static S: std::sync::OnceLock<Vec<(usize, usize, Vec<usize>)>> = std::sync::OnceLock::new();
    S.get_or_init(|| {
        let mut out = vec![];
        for (di, d) in tiny_datasets().iter().enumerate() {
            let n = d.len();
            for k in 2..=3usize {
                if distinct_rows(d) < k {
                    continue;
                }
                let total = n.pow(k as u32);
                for code in 0..total {
                    let mut c = code;
                    let mut t = vec![];
                    for _ in 0..k {
                        t.push(c % n);
                        c /= n;
                    }
                    out.push((di, k, t));
                }
            }
        }
        out
    })
}

/// Words that make k-means++ pick `targets[0]` as first centroid and then, at step j, the row `targets[j]`
/// (cut-off in the middle of that row's slice of the cumulative D^2 mass). The D^2 bookkeeping is mirrored
/// here only to aim the words; if a target has zero mass the cut-off sits on the slice boundary and
/// k-means++ legitimately picks a neighbour — every tape is a legal sequence of draws either way.
fn words_for_seeding(data: &[Vec<f64>], targets: &[usize]) -> Vec<Word> {
    let n = data.len();
    let mut words = vec![];
    let i0 = targets[0];
    let mut v = (((i0 as u128) << 64) / n as u128) as u64;
    if ((v as u128 * n as u128) >> 64) as usize != i0 {
        v += 1;
    }
    words.push(Word(64, v));
    let mut dist = vec![f64::INFINITY; n];
    let mut cur = i0;
    for t in targets.iter().skip(1) {
        for i in 0..n {
            let dd = d2(&data[i], &data[cur]);
            if dd < dist[i] {
                dist[i] = dd;
            }
        }
        let sum: f64 = dist.iter().sum();
        let before: f64 = dist.iter().take(*t).sum();
        let r = if sum > 0.0 { ((before + dist[*t] / 2.0) / sum).clamp(0.0, 1.0 - 1e-16) } else { 0.5 };
        let frac = (r * 9007199254740992.0) as u64; // 2^53
        words.push(Word(64, frac << 11));
        // which row will the real code pick? (mirror of its scan)
        let cutoff = (frac as f64 / 9007199254740992.0) * sum;
        let mut cost = 0.0;
        let mut idx = 0;
        while idx < n {
            cost += dist[idx];
            if cost >= cutoff && dist[idx] > 0.0 {
                break;
            }
            idx += 1;
        }
        cur = idx.min(n - 1);
    }
    words
}

fn gen_case(batch: &str, _index: u64, seed: u64) -> Case {
    if batch == "fit-exhaustive-small" {
        let (di, k, targets) = &tiny_plans()[_index as usize];
        let data = tiny_datasets()[*di].clone();
        let words = words_for_seeding(&data, targets);
        return Case {
            mode: "fit".into(),
            data,
            k: *k,
            max_iter: [1usize, 2, 100][(_index % 3) as usize],
            f32m: false,
            centroids: vec![],
            queries: vec![],
            tape: TapeSpec::prng(seed).with_prefix(words),
            kind: format!("tiny#{}/forced-initialisation {:?}", di, targets),
            ctor: (_index % 6) as u8,
            many: 0,
            roundtrip: 0,
            backend: 0,
            requery: 0,
        };
    }
    let mut r = Xo::fork(seed, "workload");
    let mut pr = Xo::fork(seed, "parameters");
    let tape_seed = Xo::fork(seed, "schedule").u64();
    let f32m = batch == "fit-f32" || batch == "direct-f32";
    let crowded = batch == "fit-crowded";
    if batch == "fit-deep-nest" {
        // a nest as deep as there are rows: column 0 grows geometrically (b^i, up to ~1e100), so every split of the
        // tree's widest side peels off the outermost row; the other columns hold small integers, so the rows at the
        // bottom of the nest still differ visibly. Depths of 150..300 (ordinary data: 10..30).
        let n = pr.usize_in(150, 300);
        let p = pr.usize_in(1, 3);
        let b = *pr.pick(&[2.0f64, 2.25, 1.7]);
        let sign = if pr.chance(0.3) { -1.0 } else { 1.0 };
        let mut data: Vec<Vec<f64>> = (0..n)
            .map(|i| {
                let mut row = vec![0.0; p];
                row[0] = sign * b.powi(i as i32);
                for v in row.iter_mut().skip(1) {
                    *v = r.below(3) as f64;
                }
                row
            })
            .collect();
        if pr.chance(0.5) {
            r.shuffle(&mut data);
        }
        let mut k = pr.usize_in(2, 4);
        ensure_distinct(&mut data, &mut k, false);
        let max_iter = *pr.pick(&[1usize, 2, 3, 10]);
        return Case { mode: "fit".into(), data, k, max_iter, f32m: false, centroids: vec![], queries: vec![], tape: TapeSpec::prng(tape_seed), kind: "deep-nest/prng".into(), ctor: pr.below(6) as u8, many: 0, roundtrip: 0, backend: 0, requery: 0 };
    }
    if batch == "fit-tie-lattice" {
        // one or two coordinates on a zero-centred lattice with a step that is not a dyadic rational (0.1, 1/3, 0.7,
        // 0.3): rows sit exactly halfway between centroids, ties are re-broken when a recomputed centroid changes in
        // its last bit, and the computed distortion can go UP by an ulp between two Lloyd steps. Full-length fits.
        let p = if pr.chance(0.7) { 1 } else { 2 };
        let n = pr.usize_in(12, 60);
        let half = pr.usize_in(2, 5) as i64;
        let step = *pr.pick(&[0.1, 0.1, 1.0 / 3.0, 0.7, 0.3]);
        let data: Vec<Vec<f64>> = (0..n).map(|_| (0..p).map(|_| (r.below(2 * half as u64 + 1) as i64 - half) as f64 * step).collect()).collect();
        let mut data = data;
        let mut k = pr.usize_in(2, 3).min(n);
        ensure_distinct(&mut data, &mut k, false);
        return Case { mode: "fit".into(), data, k, max_iter: 100, f32m: false, centroids: vec![], queries: vec![], tape: TapeSpec::prng(tape_seed), kind: "tie-lattice/prng".into(), ctor: pr.below(6) as u8, many: 0, roundtrip: 0, backend: 0, requery: 0 };
    }
    let n = if crowded { pr.usize_in(4, 12) } else if pr.chance(0.5) { pr.usize_in(2, 40) } else { pr.usize_in(2, 300) };
    let p = if crowded { pr.usize_in(1, 2) } else { pr.usize_in(1, 6) };
    let (mut data, mut dname) = gen_data(&mut r, n, p, f32m);
    let mut k = pr.usize_in(2, 8).min(n);
    if crowded {
        // few rows, many clusters: clusters empty out and fill up again; either a coarse lattice (exact ties) or
        // pairs of rows a relative 1e-6..1e-12 of the range apart (>= 1e-8 absolute) (far above the tree's absolute 1e-10 merge radius,
        // so every row must still find ITS nearest centroid)
        let style = pr.below(3);
        if style == 2 {
            // a tiny cloud: every row within ~1e-8 of one point (distinct rows several 1e-10 apart — above what
            // the tree merges — around an offset of 0, 1 or 100): the total distortion is of the order of epsilon
            let step = *pr.pick(&[5e-10, 1e-9, 1e-8]);
            let off = *pr.pick(&[0.0, 1.0, 100.0]);
            let levels = pr.usize_in(3, 14) as u64;
            for row in data.iter_mut() {
                for v in row.iter_mut() {
                    *v = off + step * r.below(levels + 1) as f64;
                }
            }
            dname = "crowded-tiny-cloud";
        } else if style == 0 {
            let levels = pr.usize_in(2, 8) as u64;
            for row in data.iter_mut() {
                for v in row.iter_mut() {
                    *v = r.below(levels + 1) as f64;
                }
            }
            dname = "crowded-lattice";
        } else {
            // gaps from a relative 1e-6 down to 1e-12 of the range, but never below 1e-8 absolute
            // (50x the diameter the unchanged tree merges)
            let range = *pr.pick(&[1.0, 100.0, 1.0e4, 1.0e6]);
            let rel = (*pr.pick(&[1e-6, 1e-7, 1e-8, 1e-10, 1e-11, 1e-12]) as f64).max(2e-8 / range);
            for i in 0..n {
                if i % 2 == 0 {
                    for v in data[i].iter_mut() {
                        *v = range * r.range(-1.0, 1.0);
                    }
                } else {
                    let prev = data[i - 1].clone();
                    for (j, v) in data[i].iter_mut().enumerate() {
                        *v = prev[j] + range * rel * r.range(0.5, 1.0);
                    }
                }
            }
            dname = "crowded-near-duplicate-pairs";
        }
        k = 8.min(n);
    }
    if batch.starts_with("direct") {
        let k = if pr.chance(0.1) { 1 } else { pr.usize_in(2, 8) };
        let s = scale_of(&data, &[]).max(1e-3);
        let ckind = pr.below(5);
        let mut cents: Vec<Vec<f64>> = vec![];
        let cname;
        match ckind {
            0 => {
                cname = "rows-of-data";
                for _ in 0..k {
                    cents.push(data[pr.below(n as u64) as usize].clone());
                }
            }
            1 => {
                cname = "coincident";
                let base = data[pr.below(n as u64) as usize].clone();
                for j in 0..k {
                    if j % 2 == 0 { cents.push(base.clone()) } else { cents.push(data[pr.below(n as u64) as usize].clone()) }
                }
            }
            2 => {
                cname = "far-outside";
                let f = *pr.pick(&[100.0, 1000.0]);
                for _ in 0..k {
                    cents.push((0..p).map(|_| s * f * pr.range(-1.0, 1.0)).collect());
                }
            }
            3 => {
                cname = "midpoints";
                for _ in 0..k {
                    let a = &data[pr.below(n as u64) as usize];
                    let b = &data[pr.below(n as u64) as usize];
                    cents.push(a.iter().zip(b).map(|(x, y)| (x + y) / 2.0).collect());
                }
            }
            _ => {
                cname = "random-in-range";
                for _ in 0..k {
                    cents.push((0..p).map(|_| s * pr.range(-1.5, 1.5)).collect());
                }
            }
        }
        if f32m {
            for c in cents.iter_mut() {
                for v in c.iter_mut() {
                    *v = *v as f32 as f64;
                }
            }
        }
        return Case { mode: "direct".into(), data, k, max_iter: 1, f32m, centroids: cents, queries: vec![], tape: TapeSpec::prng(tape_seed), kind: format!("{}/{}", dname, cname), ctor: 0, many: 0, roundtrip: 0, backend: 0, requery: 0 };
    }
    ensure_distinct(&mut data, &mut k, f32m);
    let max_iter = if pr.chance(0.6) { *pr.pick(&[1usize, 1, 2, 2, 3, 5, 10, 30, 100, 100]) } else { pr.usize_in(1, 100) };
    let nq = pr.usize_in(0, 6);
    let s = scale_of(&data, &[]).max(1e-3);
    let far = if pr.chance(0.2) { 100.0 } else { 1.0 };
    let mut queries: Vec<Vec<f64>> = (0..nq).map(|_| (0..p).map(|_| far * s * pr.range(-2.0, 2.0)).collect()).collect();
    if f32m {
        for q in queries.iter_mut() {
            for v in q.iter_mut() {
                *v = *v as f32 as f64;
            }
        }
    }
    let mut tape = TapeSpec::prng(tape_seed);
    let mut kind = format!("{}/prng", dname);
    match batch {
        "fit-prng" | "fit-f32" | "fit-crowded" => {}
        "fit-extreme" => {
            tape.extreme_pm = *pr.pick(&[50u32, 200, 500, 1000]);
            kind = format!("{}/extreme", dname);
        }
        "fit-forced-first" => {
            // force the first centroid onto a chosen row (often a duplicated one); cut-offs stay PRNG
            let row = if pr.chance(0.5) { n - 1 } else { pr.below(n as u64) as usize };
            // gen_range(0..n) for usize takes one u64 word: v*n >> 64 == row
            let v = (((row as u128) << 64) / n as u128) as u64;
            let v = if ((v as u128 * n as u128) >> 64) as usize == row { v } else { v + 1 };
            tape.prefix = vec![Word(64, v)];
            kind = format!("{}/forced-first-row", dname);
        }
        _ => panic!("unknown batch {}", batch),
    }
    let ctor = pr.below(6) as u8;
    Case { mode: "fit".into(), data, k, max_iter, f32m, centroids: vec![], queries, tape, kind, ctor, many: 0, roundtrip: 0, backend: 0, requery: 0 }
}

impl Property for C12 {
    type Case = Case;
    fn id(&self) -> &'static str {
        "C12"
    }
    fn batches(&self, tier: Tier) -> Vec<Batch> {
        let q = tier == Tier::Quick;
        vec![
            Batch { name: "fit-exhaustive-small", count: tiny_plans().len() as u64, simulated: true, exhaustive: true, note: "six fixed data sets of 4..6 rows (duplicates, lattice, collinear): every tuple of rows k-means++ can be steered to (first index x every D^2 slice) for k = 2, 3, forced through the RNG seam" },
            Batch { name: "fit-prng", count: if q { 60_000 } else { 4_000_000 }, simulated: true, exhaustive: false, note: "k-means++ draws served from the seeded PRNG tape; in-run probe judged at every Lloyd step" },
            Batch { name: "fit-crowded", count: if q { 40_000 } else { 2_000_000 }, simulated: true, exhaustive: false, note: "4..12 rows, up to 8 clusters: coarse lattices (clusters empty out and are re-populated) and near-duplicate pairs a relative 1e-6..1e-12 of the range apart (>= 1e-8 absolute)" },
            Batch { name: "fit-tie-lattice", count: if q { 150_000 } else { 4_000_000 }, simulated: true, exhaustive: false, note: "12..60 rows on a zero-centred lattice with a non-dyadic step in 1 or 2 columns, k = 2..3, full-length fits: rows exactly halfway between centroids, ties re-broken by last-bit changes, distortion rising by an ulp" },
            Batch { name: "fit-deep-nest", count: if q { 3_000 } else { 100_000 }, simulated: true, exhaustive: false, note: "150..300 rows whose first column grows geometrically (b^i up to ~1e100) and whose other columns hold small integers: the tree is as deep as there are rows" },
            Batch { name: "fit-extreme", count: if q { 40_000 } else { 2_000_000 }, simulated: true, exhaustive: false, note: "extreme words (cut-off 0.0, 1-2^-53, first/last row) injected at random draw sites" },
            Batch { name: "fit-forced-first", count: if q { 12_000 } else { 500_000 }, simulated: true, exhaustive: false, note: "first centroid forced onto a chosen (often duplicated / last) row" },
            Batch { name: "fit-f32", count: if q { 12_000 } else { 500_000 }, simulated: true, exhaustive: false, note: "same as fit-prng in single precision (tolerances scaled)" },
            Batch { name: "many-rows-huge", count: if q { 3 } else { 12 }, simulated: true, exhaustive: false, note: "one predict call with 3e5..1.1e6 rows (thorough: up to 4.2e6): block sizes of 2^18..2^22 elements; a cap beyond the largest call made here stays invisible" },
            Batch { name: "direct", count: if q { 40_000 } else { 1_000_000 }, simulated: false, exhaustive: false, note: "schedule-free: the assignment step called directly (hook) with coincident / far-outside / mid-point / k=1 centroid sets" },
            Batch { name: "direct-f32", count: if q { 8_000 } else { 200_000 }, simulated: false, exhaustive: false, note: "schedule-free direct calls in single precision" },
        ]
    }
    fn gen(&self, batch: &str, index: u64, seed: u64) -> Case {
        if batch == "many-rows-huge" {
            let mut c = self.gen(if index % 2 == 1 { "fit-f32" } else { "fit-prng" }, index, seed);
            c.many = [300_000usize, 600_000, 1_100_000, 4_200_000][(index % 4) as usize];
            c.kind = format!("{}+many-rows-huge", c.kind);
            return c;
        }
        let mut c = gen_case(batch, index, seed);
        if c.mode == "fit" {
            let mut r = Xo::fork(seed, "post");
            // (rows x k distance evaluations per call: the largest sizes are rare)
            c.many = if r.chance(0.004) { *r.pick(&[1030usize, 1030, 2060, 4100, 4100, 8200, 16_400, 65_600]) } else { 0 };
            c.roundtrip = if r.chance(0.2) { 1 + r.below(2) as u8 } else { 0 };
            c.backend = if r.chance(0.25) { 1 + r.below(3) as u8 } else { 0 };
            c.requery = if r.chance(0.15) { 1 + r.below(2) as u8 } else { 0 };
        }
        c
    }
    fn run(&self, case: &Case) -> Report {
        let r = guarded(|| {
            let mut rep = Report::default();
            match (case.mode.as_str(), case.f32m) {
                ("fit", false) => self.run_fit::<f64>(case, &mut rep),
                ("fit", true) => self.run_fit::<f32>(case, &mut rep),
                ("direct", false) => self.run_direct::<f64>(case, &mut rep),
                ("direct", true) => self.run_direct::<f32>(case, &mut rep),
                _ => rep.fail("harness-panic", "c12", format!("unknown mode {}", case.mode)),
            }
            rep
        });
        match r {
            Ok(rep) => rep,
            Err(msg) => {
                rand::sim::uninstall();
                set_kmeans_observer(None);
                let mut rep = Report::default();
                rep.fail("harness-panic", "c12", format!("harness panicked: {}", msg));
                rep
            }
        }
    }
    fn shrink(&self, case: &Case) -> Vec<Case> {
        let mut out: Vec<Case> = vec![];
        let n = case.data.len();
        let p = case.data[0].len();
        let valid = |c: &Case| -> bool {
            let nn = c.data.len();
            if nn < 2 || c.data[0].is_empty() {
                return false;
            }
            if c.mode == "fit" {
                c.k >= 2 && c.max_iter >= 1 && distinct_rows_t(&c.data, c.f32m) >= c.k
            } else {
                !c.centroids.is_empty()
            }
        };
        let mut push = |c: Case| {
            if c != *case && valid(&c) {
                out.push(c);
            }
        };
        // drop halves, then single rows
        if n > 2 {
            for (a, b) in [(0, n / 2), (n / 2, n)] {
                let mut c = case.clone();
                c.data = case.data[a..b].to_vec();
                push(c);
            }
            for i in (0..n).rev().take(40) {
                let mut c = case.clone();
                c.data.remove(i);
                push(c);
            }
        }
        if !case.queries.is_empty() {
            let mut c = case.clone();
            c.queries.clear();
            push(c);
        }
        if case.mode == "fit" {
            if case.k > 2 {
                let mut c = case.clone();
                c.k -= 1;
                push(c);
            }
            for mi in [1, case.max_iter / 2, case.max_iter.saturating_sub(1)] {
                if mi >= 1 && mi < case.max_iter {
                    let mut c = case.clone();
                    c.max_iter = mi;
                    push(c);
                }
            }
        } else if case.centroids.len() > 1 {
            for j in 0..case.centroids.len() {
                let mut c = case.clone();
                c.centroids.remove(j);
                c.k = c.centroids.len();
                push(c);
            }
        }
        // drop columns
        if p > 1 {
            for j in 0..p {
                let mut c = case.clone();
                for r in c.data.iter_mut() {
                    r.remove(j);
                }
                for r in c.queries.iter_mut() {
                    r.remove(j);
                }
                for r in c.centroids.iter_mut() {
                    r.remove(j);
                }
                push(c);
            }
        }
        // round values
        {
            let mut c = case.clone();
            for r in c.data.iter_mut().chain(c.centroids.iter_mut()) {
                for v in r.iter_mut() {
                    *v = v.round();
                }
            }
            push(c);
            let mut c = case.clone();
            for r in c.data.iter_mut().chain(c.centroids.iter_mut()) {
                for v in r.iter_mut() {
                    *v = (*v * 8.0).round() / 8.0;
                }
            }
            push(c);
        }
        if case.tape.extreme_pm > 0 {
            let mut c = case.clone();
            c.tape.extreme_pm = 0;
            push(c);
        }
        for i in 0..case.tape.prefix.len().min(16) {
            if case.tape.prefix[i].1 != 0 {
                let mut c = case.clone();
                c.tape.prefix[i].1 = 0;
                push(c);
                let mut c = case.clone();
                c.tape.prefix[i].1 = 1 << 63;
                push(c);
            }
        }
        out
    }
    fn literalize(&self, case: &Case, report: &Report) -> Case {
        let mut c = case.clone();
        if case.mode == "fit" {
            c.tape = TapeSpec::literal(&report.tape, case.tape.seed);
        }
        c
    }
    fn sample(&self, case: &Case, report: &Report) -> Value {
        json!({
            "mode": case.mode, "kind": case.kind, "n": case.data.len(), "p": case.data[0].len(), "k": case.k, "max_iter": case.max_iter, "f32": case.f32m,
            "first_rows": case.data.iter().take(3).collect::<Vec<_>>(),
            "centroids_given": case.centroids.iter().take(3).collect::<Vec<_>>(),
            "tape_seed": case.tape.seed, "extreme_per_mille": case.tape.extreme_pm, "tape_prefix": case.tape.prefix,
            "words_served": report.tape,
            "lloyd_steps": report.counters.get("steps.lloyd_iterations"),
            "log_digest": format!("{:016x}", report.log_digest),
            "violation": report.violation.as_ref().map(|v| v.class.clone()),
        })
    }
    fn rule(&self) -> String {
        "cases: (explicit data matrix n<=300 x p<=6 from five generators incl. lattices and exact duplicates, k 2..8, max_iter, f64/f32, tape policy) from case_seed; the tape decides the \
         first centroid index and every D^2 cut-off of k-means++. distinct_nontrivial = number of distinct initial partitions (digest of the centroid set handed to the first assignment step, \
         observed through the in-run probe) among fits that performed >= 2 Lloyd steps; direct (schedule-free) calls never count".into()
    }
    fn state_measure(&self) -> String {
        "distinct (centroid set quantised to 1e-6, row->cluster vector) pairs seen at probe events (first 64 per run), plus distinct membership vectors of direct calls".into()
    }
    fn assumptions(&self) -> Vec<String> {
        vec![
            "the only nondeterminism KMeans::fit consumes is rand::thread_rng() inside kmeans_plus_plus, served by the simulator through the patched rand 0.8.8 copy".into(),
            "the cfg(smartcore_verif) probe reports exactly the arguments and results of BBDTree::clustering at each Lloyd step (add-only hook, src/verif.rs)".into(),
            "reference model: exhaustive nearest-centroid search in f64; tolerances (relative to data/centroid scale s): squared-distance excess 4096*eps*p*(s*sqrt(d2)+d2) (condition-aware, so data far from the origin are judged as strictly as centred data), sums 2e-13*s*n, means 2e-13*s (about 1000 unit roundoffs; measured worst 4e-15), distortion 1e-6 relative (f32: 2e-4, 1e-4, 5e-3) — at least 100x the measured worst case, which is reported under measured_maxima".into(),
            "the BBD tree merges the points of a box of half-width < 1e-10 (absolute) into one leaf represented by its first point; every tolerance therefore carries an absolute term of a few 1e-10 per merged row (data are generated at scales >= 1e-2, where this is < 1e-7 relative); data at scales near 1e-10 would be clustered as if all rows coincided — an observation for the maintainers, outside the generated domain".into(),
            "sampling, not enumeration: a clean batch is evidence, not proof".into(),
        ]
    }
    fn components(&self) -> Value {
        json!({
            "real": ["smartcore KMeans::fit / predict / kmeans_plus_plus", "smartcore BBDTree (build, clustering, filter, prune)", "rand 0.8.8 gen_range / Standard f64", "serde_json (observation of k/size/centroids/_y)"],
            "stub": ["ThreadRng word source (simulator tape)"]
        })
    }
}
