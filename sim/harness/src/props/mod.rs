pub mod c16;
