pub mod c06;
pub mod c10;
pub mod c12;
pub mod c16;
