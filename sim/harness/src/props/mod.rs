pub mod c12;
pub mod c16;
