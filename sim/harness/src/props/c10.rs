//! C10 — SVM models are dual-feasible, KKT-consistent and equal their kernel expansion.
//!
//! Simulated (SVC): every `thread_rng` draw behind `Optimizer::permutate`, i.e. the visiting order
//! of `initialize` and of every epoch, comes from the tape; a logical clock (kernel evaluations
//! through the `Kernel` trait seam + the cfg-guarded tick in the reprocess loop) bounds the run.
//! Schedule-free ride-along: SVR (draws nothing) and the kernel closed forms.

use crate::core::rng::{Digest, Xo};
use crate::core::runner::{guarded, Batch, Property, Report, Tier};
use crate::core::tape::{
    decode_shuffle, factorial, nth_permutation, words_for_permutation, TapeGuard, TapeSpec, Word,
};
use serde::de::DeserializeOwned;
use serde::{Deserialize, Serialize};
use serde_json::{json, Value};
use smartcore::api::{Predictor, SupervisedEstimator};
use smartcore::linalg::naive::dense_matrix::DenseMatrix;
use smartcore::math::num::RealNumber;
use smartcore::svm::svc::{SVCParameters, SVC};
use smartcore::svm::svr::{SVRParameters, SVR};
use smartcore::svm::{Kernel, Kernels};
use smartcore::verif::set_tick_observer;
use std::cell::Cell;
use std::rc::Rc;
use std::sync::OnceLock;

#[derive(Serialize, Deserialize, Clone, Debug, PartialEq)]
pub struct KSpec {
    pub kind: String,
    pub gamma: f64,
    pub degree: f64,
    pub coef0: f64,
}

#[derive(Serialize, Deserialize, Clone, Debug, PartialEq)]
pub struct Case {
    /// "svc" | "svr" | "kernel"
    pub model: String,
    pub x: Vec<Vec<f64>>,
    pub y: Vec<f64>,
    pub kernel: KSpec,
    pub c: f64,
    pub tol: f64,
    pub epoch: usize,
    pub eps: f64,
    pub f32m: bool,
    pub queries: Vec<Vec<f64>>,
    /// kernel-evaluation budget (logical clock) — exceeding it is the bounded-liveness violation
    pub budget: u64,
    pub tape: TapeSpec,
    pub kind: String,
    /// order in which the parameter builders are called: 0 = c, tol, epoch/eps, kernel; 1 = kernel first, then the rest reversed
    #[serde(default)]
    pub ctor: u8,
    #[serde(default)]
    pub post: Post,
}

/// what is done with the fitted model besides the standard queries (derived from the case seed; swarm style)
#[derive(Serialize, Deserialize, Clone, Debug, PartialEq, Default)]
pub struct Post {
    /// > 0: one more call with this many query rows (the standard rows repeated in a scrambled order): code that
    /// processes rows in blocks (1024, 4096, 65536) meets its block boundaries only with that many rows in one call
    #[serde(default)]
    pub many: usize,
    /// 1 = the model also goes through a bincode round trip, 2 = through serde_json values, before the same queries
    /// are asked again: a restored model is a model
    #[serde(default)]
    pub roundtrip: u8,
    /// ask the standard rows a second time, as a matrix of the same shape with the rows in reverse (1) or rotated (2)
    /// order, directly after the first call: an answer belongs to its row, not to its position in an earlier call
    #[serde(default)]
    pub requery: u8,
    /// the parameter value handed to `fit` is a clone of the one that was built (cross_validate clones its parameters)
    #[serde(default)]
    pub clone_params: bool,
}

fn post_of(seed: u64) -> Post {
    let mut r = Xo::fork(seed, "post");
    let many = if r.chance(0.012) { *r.pick(&[1030usize, 1030, 2060, 4100, 4100, 8200, 16_400, 65_600]) } else { 0 };
    let roundtrip = if r.chance(0.2) { 1 + r.below(2) as u8 } else { 0 };
    let requery = if r.chance(0.15) { 1 + r.below(2) as u8 } else { 0 };
    let clone_params = r.chance(0.3);
    Post { many, roundtrip, requery, clone_params }
}

/// scrambled repetition of m standard rows up to `total` rows: source index of every row of the big matrix
fn many_rows_src(total: usize, m: usize, seed: u64) -> Vec<usize> {
    let stride = 1 + (seed % 7) as usize;
    let off = (seed / 7 % m as u64) as usize;
    (0..total).map(|j| (j * stride + off + j / m) % m).collect()
}

pub struct C10;

/// the element types the checks run at; the serialisation round trips are written against the concrete types (see
/// the same trait in c12.rs)
pub trait Elem: RealNumber + Serialize + DeserializeOwned {
    fn restore_svc<K: Kernel<Self, Vec<Self>> + Serialize + DeserializeOwned>(m: &SVC<Self, DenseMatrix<Self>, Counting<K>>, how: u8) -> Result<SVC<Self, DenseMatrix<Self>, Counting<K>>, String>;
    fn restore_svr<K: Kernel<Self, Vec<Self>> + Serialize + DeserializeOwned>(m: &SVR<Self, DenseMatrix<Self>, Counting<K>>, how: u8) -> Result<SVR<Self, DenseMatrix<Self>, Counting<K>>, String>;
}
macro_rules! elem {
    ($t:ty) => {
        impl Elem for $t {
            fn restore_svc<K: Kernel<$t, Vec<$t>> + Serialize + DeserializeOwned>(m: &SVC<$t, DenseMatrix<$t>, Counting<K>>, how: u8) -> Result<SVC<$t, DenseMatrix<$t>, Counting<K>>, String> {
                if how == 1 {
                    bincode::serialize(m).map_err(|e| e.to_string()).and_then(|b| bincode::deserialize(&b).map_err(|e| e.to_string()))
                } else {
                    serde_json::to_value(m).map_err(|e| e.to_string()).and_then(|v| serde_json::from_value(v).map_err(|e| e.to_string()))
                }
            }
            fn restore_svr<K: Kernel<$t, Vec<$t>> + Serialize + DeserializeOwned>(m: &SVR<$t, DenseMatrix<$t>, Counting<K>>, how: u8) -> Result<SVR<$t, DenseMatrix<$t>, Counting<K>>, String> {
                if how == 1 {
                    bincode::serialize(m).map_err(|e| e.to_string()).and_then(|b| bincode::deserialize(&b).map_err(|e| e.to_string()))
                } else {
                    serde_json::to_value(m).map_err(|e| e.to_string()).and_then(|v| serde_json::from_value(v).map_err(|e| e.to_string()))
                }
            }
        }
    };
}
elem!(f32);
elem!(f64);


fn dot(a: &[f64], b: &[f64]) -> f64 {
    a.iter().zip(b).map(|(x, y)| x * y).sum()
}

/// closed forms, written independently of smartcore
fn kref(k: &KSpec, a: &[f64], b: &[f64]) -> f64 {
    match k.kind.as_str() {
        "linear" => dot(a, b),
        "rbf" => {
            let d2: f64 = a.iter().zip(b).map(|(x, y)| (x - y) * (x - y)).sum();
            (-k.gamma * d2).exp()
        }
        "poly" => (k.gamma * dot(a, b) + k.coef0).powf(k.degree),
        "sigmoid" => (k.gamma * dot(a, b) + k.coef0).tanh(),
        _ => f64::NAN,
    }
}

// ------------------------------------------------------------------------------------------
// seam S2: counting kernel wrapper (delegates to the real kernels)
// ------------------------------------------------------------------------------------------

#[derive(Serialize, Deserialize, Clone, Debug)]
struct Counting<K> {
    inner: K,
    #[serde(skip)]
    count: Rc<Cell<u64>>,
    #[serde(skip)]
    budget: u64,
}

impl<T: RealNumber, K: Kernel<T, Vec<T>>> Kernel<T, Vec<T>> for Counting<K> {
    fn apply(&self, a: &Vec<T>, b: &Vec<T>) -> T {
        let c = self.count.get() + 1;
        self.count.set(c);
        if self.budget > 0 && c > self.budget {
            panic!("step-budget: more than {} kernel evaluations", self.budget);
        }
        self.inner.apply(a, b)
    }
}

/// Brent's cycle detection over the optimizer-state digests delivered by the tick hook. The SMO loops
/// are deterministic functions of that state, so a state seen twice inside one loop is a proof that the
/// loop never exits (no budget, no clock, no false alarm short of a 64-bit digest collision).
#[derive(Default)]
pub struct CycleDetector {
    armed: bool,
    tortoise: u64,
    power: u64,
    lam: u64,
}

impl CycleDetector {
    fn reset(&mut self) {
        self.armed = false;
    }
    /// returns Some(cycle length) when the state repeats
    pub fn step(&mut self, d: u64) -> Option<u64> {
        if !self.armed {
            self.armed = true;
            self.tortoise = d;
            self.power = 1;
            self.lam = 0;
            return None;
        }
        self.lam += 1;
        if d == self.tortoise {
            return Some(self.lam);
        }
        if self.lam == self.power {
            self.tortoise = d;
            self.power *= 2;
            self.lam = 0;
        }
        None
    }
}

fn install_tick_observer(ticks: Rc<Cell<u64>>, tick_budget: u64) {
    let mut det = CycleDetector::default();
    set_tick_observer(Some(Box::new(move |site, digest| {
        if site == "svc-row" {
            // a new inner loop starts: states of different loops may legitimately coincide
            det.reset();
            return;
        }
        let c = ticks.get() + 1;
        ticks.set(c);
        if let Some(len) = det.step(digest) {
            panic!("state-cycle: the optimizer state at `{}` repeated after {} iteration(s) (tick {}): the loop can never exit", site, len, c);
        }
        if tick_budget > 0 && c > tick_budget {
            panic!("step-budget: more than {} SMO iterations", tick_budget);
        }
    })));
}

struct TickGuard;
impl Drop for TickGuard {
    fn drop(&mut self) {
        set_tick_observer(None);
    }
}

fn mat<T: RealNumber>(rows: &[Vec<f64>]) -> DenseMatrix<T> {
    let n = rows.len();
    let p = rows[0].len();
    let v: Vec<T> = rows.iter().flat_map(|r| r.iter().map(|x| T::from_f64(*x).unwrap())).collect();
    DenseMatrix::from_array(n, p, &v)
}
fn vecf<T: RealNumber>(v: &[f64]) -> Vec<T> {
    v.iter().map(|x| T::from_f64(*x).unwrap()).collect()
}
fn rows_of(v: &Value) -> Vec<Vec<f64>> {
    v.as_array()
        .map(|a| a.iter().map(|r| r.as_array().map(|rr| rr.iter().map(|x| x.as_f64().unwrap_or(f64::NAN)).collect()).unwrap_or_default()).collect())
        .unwrap_or_default()
}
fn f64s_of(v: &Value) -> Vec<f64> {
    v.as_array().map(|a| a.iter().map(|x| x.as_f64().unwrap_or(f64::NAN)).collect()).unwrap_or_default()
}
fn bits_eq(a: &[f64], b: &[f64]) -> bool {
    a.len() == b.len() && a.iter().zip(b).all(|(x, y)| x.to_bits() == y.to_bits() || (*x == 0.0 && *y == 0.0))
}

struct Tols {
    box_rel: f64,
    sum_rel: f64,
    expand: f64,
}
fn tols(f32m: bool) -> Tols {
    if f32m {
        Tols { box_rel: 1e-5, sum_rel: 1e-3, expand: 2e-3 }
    } else {
        Tols { box_rel: 1e-12, sum_rel: 1e-9, expand: 1e-9 }
    }
}

fn decode_schedule(n: usize, words: &[Word], shuffles: usize) -> Vec<Vec<usize>> {
    let mut out = vec![];
    let mut pos = 0;
    for _ in 0..shuffles {
        if pos > words.len() {
            break;
        }
        let (perm, used) = decode_shuffle(n, &words[pos..]);
        if used == 0 && n > 1 {
            break;
        }
        pos += used;
        out.push(perm);
        if pos >= words.len() {
            break;
        }
    }
    out
}

impl C10 {
    fn run_svc<T, K>(&self, case: &Case, inner: K, rep: &mut Report)
    where
        T: Elem,
        K: Kernel<T, Vec<T>> + Serialize + DeserializeOwned + Clone,
    {
        let n = case.x.len();
        // the implementation sees the parameters rounded to the element type; the oracles must judge against those
        let c_eff = T::from_f64(case.c).unwrap().to_f64().unwrap();
        let tol_eff = T::from_f64(case.tol).unwrap().to_f64().unwrap();
        let eps_eff = T::from_f64(case.eps).unwrap().to_f64().unwrap();
        let _ = (tol_eff, eps_eff);
        let p = case.x[0].len();
        let x: DenseMatrix<T> = mat(&case.x);
        let y: Vec<T> = vecf(&case.y);
        // what the implementation sees (after rounding to T)
        let xs: Vec<Vec<f64>> = case.x.iter().map(|r| r.iter().map(|v| T::from_f64(*v).unwrap().to_f64().unwrap()).collect()).collect();
        let ys: Vec<f64> = y.iter().map(|v| v.to_f64().unwrap()).collect();
        let mut labels = ys.clone();
        labels.sort_by(|a, b| a.partial_cmp(b).unwrap());
        labels.dedup();
        let ctx = format!(
            "SVC::fit(n={}, p={}, kernel={}(g={},d={},c0={}), C={}, tol={}, epoch={}, labels={:?}, f32={})",
            n, p, case.kernel.kind, case.kernel.gamma, case.kernel.degree, case.kernel.coef0, c_eff, tol_eff, case.epoch, labels, case.f32m
        );
        let count = Rc::new(Cell::new(0u64));
        let kern = Counting { inner, count: count.clone(), budget: case.budget };
        let ticks = Rc::new(Cell::new(0u64));
        let guard = TapeGuard::install(&case.tape);
        let res = {
            install_tick_observer(ticks.clone(), case.budget);
            let _tg = TickGuard;
            let params = if case.ctor % 2 == 0 {
                SVCParameters::default()
                    .with_c(T::from_f64(c_eff).unwrap())
                    .with_tol(T::from_f64(tol_eff).unwrap())
                    .with_epoch(case.epoch)
                    .with_kernel(kern)
            } else {
                SVCParameters::default()
                    .with_kernel(kern)
                    .with_epoch(case.epoch)
                    .with_tol(T::from_f64(tol_eff).unwrap())
                    .with_c(T::from_f64(c_eff).unwrap())
            };
            let params = if case.post.clone_params { let c2 = params.clone(); drop(params); c2 } else { params };
            guarded(|| if case.ctor / 2 == 1 { <SVC<T, DenseMatrix<T>, _> as SupervisedEstimator<DenseMatrix<T>, Vec<T>, _>>::fit(&x, &y, params) } else { SVC::fit(&x, &y, params) })
        };
        let log = guard.log();
        drop(guard);
        let fit_evals = count.get();
        rep.tape = log.words.clone();
        rep.count("steps.rng_words", log.words.len() as u64);
        rep.count("steps.kernel_evals", fit_evals);
        rep.count("steps.smo_ticks", ticks.get());
        rep.max("kernel_evals_per_fit", fit_evals as f64);
        rep.max("smo_ticks_per_fit", ticks.get() as f64);
        rep.count("fault.extreme-draw", log.extremes);
        rep.count("fault.prng-schedule", (log.from_prng > 0) as u64);
        rep.count("fault.forced-permutation", (log.from_prefix > 0 && case.kind.contains("forced")) as u64);
        rep.count("fault.step-budget-armed", (case.budget > 0) as u64);
        let mut d = Digest::new();
        d.u64(log.digest()).u64(fit_evals).u64(ticks.get());

        let model = match res {
            Err(msg) => {
                if msg.starts_with("state-cycle") {
                    rep.fail("no-termination", "svc-state-cycle", format!("{}: never returns: {}", ctx, msg));
                } else if msg.starts_with("step-budget") {
                    rep.fail("no-termination", "svc-step-budget", format!("{}: did not return within the logical step budget: {}", ctx, msg));
                } else if msg.starts_with("rng-budget") {
                    rep.fail("no-termination", "svc-rng-budget", format!("{}: {}", ctx, msg));
                } else {
                    rep.fail("panic", "svc-fit", format!("{} panicked: {}", ctx, msg));
                }
                rep.log_digest = d.get();
                return;
            }
            Ok(Err(e)) => {
                rep.fail("fit-error", "svc-fit", format!("{} returned an error on a valid two-class training set: {}", ctx, e));
                rep.log_digest = d.get();
                return;
            }
            Ok(Ok(m)) => m,
        };
        let v = serde_json::to_value(&model).unwrap_or(Value::Null);
        let classes = f64s_of(&v["classes"]);
        let inst = rows_of(&v["instances"]);
        let w = f64s_of(&v["w"]);
        let b = v["b"].as_f64().unwrap_or(f64::NAN);
        for r in &inst {
            d.f64s(r);
        }
        d.f64s(&w).f64(b).f64s(&classes);
        let t = tols(case.f32m);
        // 1. classes
        if classes != labels {
            rep.fail("classes", "svc-model", format!("{}: model classes {:?}, training labels {:?}", ctx, classes, labels));
        }
        // 2. support vectors are training rows
        if inst.len() != w.len() {
            rep.fail("shape", "svc-model", format!("{}: {} support vectors but {} coefficients", ctx, inst.len(), w.len()));
        }
        if !b.is_finite() || w.iter().any(|x| !x.is_finite()) {
            rep.fail("non-finite", "svc-model", format!("{}: b = {}, w = {:?}", ctx, b, w.iter().take(8).collect::<Vec<_>>()));
        }
        let mut sv_rows: Vec<usize> = vec![];
        let mut conflicting_dups = false;
        for (i, sv) in inst.iter().enumerate() {
            let matches: Vec<usize> = (0..n).filter(|r| bits_eq(&xs[*r], sv)).collect();
            if matches.is_empty() {
                rep.fail("sv-not-training-row", "svc-model", format!("{}: support vector {} = {:?} is not a training row", ctx, i, sv));
                continue;
            }
            sv_rows.push(matches[0]);
            if i >= w.len() {
                continue;
            }
            let all_pos = matches.iter().all(|r| ys[*r] == labels[labels.len() - 1]);
            let all_neg = matches.iter().all(|r| ys[*r] == labels[0]);
            let dlt = t.box_rel * c_eff;
            let (lo, hi) = if all_pos {
                (-dlt, c_eff + dlt)
            } else if all_neg {
                (-c_eff - dlt, dlt)
            } else {
                conflicting_dups = true;
                (-c_eff - dlt, c_eff + dlt)
            };
            if c_eff > 0.0 {
                let out = if w[i] < lo { lo - w[i] } else if w[i] > hi { w[i] - hi } else { 0.0 };
                rep.max(if case.f32m { "box_excess_rel_f32" } else { "box_excess_rel_f64" }, out.max(0.0) / c_eff);
            }
            if !(w[i] >= lo && w[i] <= hi) {
                rep.fail(
                    "box",
                    "svc-dual-feasibility",
                    format!(
                        "{}: coefficient {} = {:e} of support vector {:?} (training row {}, label {}) is outside [{:e}, {:e}]",
                        ctx, i, w[i], sv, matches[0], ys[matches[0]], lo, hi
                    ),
                );
            }
        }
        // 4. sum to zero
        let sw: f64 = w.iter().sum();
        rep.max(if case.f32m { "sum_w_rel_f32" } else { "sum_w_rel_f64" }, sw.abs() / (c_eff * n as f64));
        // every update subtracts a step from one coefficient and adds it to another (two roundings of values <= C);
        // there is at most one update per tick of the hook (row processed / reprocess), one per row in `initialize`
        // and n + 1 in `finish`. Judged with 4x that. (A flat bound relative to C*n, used first and then kept as a cap, has no derivation: the drift of a fit with 1e9 updates reached 58% of it.)
        let eps_t = if case.f32m { f32::EPSILON as f64 } else { f64::EPSILON };
        let sum_tol = 4.0 * eps_t * (ticks.get() as f64 + 3.0 * n as f64 + 8.0) * c_eff;
        rep.max(if case.f32m { "sum_w_over_tol_f32" } else { "sum_w_over_tol_f64" }, sw.abs() / sum_tol);
        if !(sw.abs() <= sum_tol) {
            rep.fail("sum-to-zero", "svc-dual-feasibility", format!("{}: dual coefficients sum to {:e} (more than {:e}; |w| = {}, C = {})", ctx, sw, sum_tol, w.len(), c_eff));
        }
        // 5./6. kernel expansion and label rule on training + fresh rows
        let mut q: Vec<Vec<f64>> = xs.clone();
        q.extend(case.queries.iter().map(|r| r.iter().map(|v| T::from_f64(*v).unwrap().to_f64().unwrap()).collect::<Vec<f64>>()));
        let qm: DenseMatrix<T> = mat(&q);
        let before = count.get();
        let mut base_out: Option<(Vec<f64>, Vec<f64>)> = None;
        let mut mags: Vec<f64> = vec![f64::INFINITY; q.len()];
        match guarded(|| (model.decision_function(&qm), if case.ctor / 2 == 1 { Predictor::<DenseMatrix<T>, Vec<T>>::predict(&model, &qm) } else { model.predict(&qm) })) {
            Err(msg) => rep.fail("panic", "svc-predict", format!("{}: decision_function/predict panicked: {}", ctx, msg)),
            Ok((Ok(dv), Ok(lab))) => {
                let dv: Vec<f64> = dv.iter().map(|v| v.to_f64().unwrap_or(f64::NAN)).collect();
                let lab: Vec<f64> = lab.iter().map(|v| v.to_f64().unwrap_or(f64::NAN)).collect();
                d.f64s(&dv).f64s(&lab);
                if dv.len() != q.len() || lab.len() != q.len() {
                    rep.fail("shape", "svc-predict", format!("{}: {} decision values / {} labels for {} rows", ctx, dv.len(), lab.len(), q.len()));
                } else {
                    base_out = Some((dv.clone(), lab.clone()));
                    for (i, row) in q.iter().enumerate() {
                        let mut f = b;
                        let mut mag = 1.0 + b.abs();
                        let mut kmax = 0.0f64;
                        for (j, sv) in inst.iter().enumerate() {
                            if j < w.len() {
                                let kv = kref(&case.kernel, row, sv);
                                f += w[j] * kv;
                                mag += (w[j] * kv).abs();
                                kmax = if kv.is_finite() { kmax.max(kv.abs()) } else { f64::INFINITY };
                            }
                        }
                        // a query so far out that the expansion itself leaves the range of the element type (inf, or
                        // inf - inf = NaN) has no finite decision value to compare; the label rule still applies to
                        // whatever value the model reports: not positive (and NaN is not) means the smaller class
                        let tmax = if case.f32m { f32::MAX as f64 } else { f64::MAX };
                        // (kernel values themselves, and the powers on the way to them, overflow before the weighted sum does)
                        let overflow = !(mag.is_finite() && mag < tmax * 1e-3 && kmax < tmax * 1e-6);
                        mags[i] = if overflow { f64::INFINITY } else { mag };
                        if (!dv[i].is_finite() && !overflow) || !lab[i].is_finite() {
                            rep.fail("non-finite", "svc-predict", format!("{}: decision value {} / label {} for row {:?}", ctx, dv[i], lab[i], row));
                            break;
                        }
                        if !dv[i].is_finite() {
                            rep.count("probe.decision-value-non-finite-by-overflow", 1);
                            rep.count("probe.decision-value-nan", dv[i].is_nan() as u64);
                            if classes.len() == 2 {
                                let want = if dv[i] > 0.0 { classes[1] } else { classes[0] };
                                if lab[i] != want {
                                    rep.fail("label-rule", "svc-predict", format!("{}: predict({:?}) = {} although the decision value is {:e} (classes {:?})", ctx, row, lab[i], dv[i], classes));
                                    break;
                                }
                            }
                            continue;
                        }
                        let err = (dv[i] - f).abs() / mag;
                        rep.max(if case.f32m { "expansion_err_rel_f32" } else { "expansion_err_rel_f64" }, err);
                        if !(err <= t.expand) {
                            rep.fail(
                                "kernel-expansion",
                                "svc-decision-function",
                                format!("{}: decision_function({:?}) = {:e} but b + sum_i w_i K(sv_i, x) = {:e} with the closed-form kernel (rel. err {:e})", ctx, row, dv[i], f, err),
                            );
                            break;
                        }
                        if classes.len() == 2 {
                            let want = if dv[i] > 0.0 { classes[1] } else { classes[0] };
                            if lab[i] != want {
                                rep.fail(
                                    "label-rule",
                                    "svc-predict",
                                    format!("{}: predict({:?}) = {} although the decision value is {:e} (classes {:?})", ctx, row, lab[i], dv[i], classes),
                                );
                                break;
                            }
                        }
                    }
                }
            }
            Ok((a, bb)) => rep.fail("predict-error", "svc-predict", format!("{}: decision_function / predict failed: {:?} {:?}", ctx, a.err().map(|e| e.to_string()), bb.err().map(|e| e.to_string()))),
        }
        // 6b. the label rule AT the decision boundary. Random rows never come within rounding of a zero decision
        // value, so in one run out of four the harness walks there: bisect the segment between a row with a positive
        // and a row with a non-positive decision value down to neighbouring floats, then query points at every binary
        // scale around the root. Whatever the rounding of the two code paths, the label must be the larger class
        // exactly when the decision value the model itself reports is positive.
        if rep.violation.is_none() && case.tape.seed % 4 == 0 && classes.len() == 2 {
            let point = |a: &Vec<f64>, b: &Vec<f64>, t: f64| -> Vec<f64> { a.iter().zip(b).map(|(x, y)| T::from_f64(x + t * (y - x)).unwrap().to_f64().unwrap()).collect() };
            let eval = |rows: &Vec<Vec<f64>>| -> Option<(Vec<f64>, Vec<f64>)> {
                let m: DenseMatrix<T> = mat(rows);
                match guarded(|| (model.decision_function(&m), model.predict(&m))) {
                    Ok((Ok(dv), Ok(lab))) => Some((dv.iter().map(|v| v.to_f64().unwrap_or(f64::NAN)).collect(), lab.iter().map(|v| v.to_f64().unwrap_or(f64::NAN)).collect())),
                    _ => None,
                }
            };
            if let Some((dv0, _)) = eval(&q) {
                let pos = (0..q.len()).find(|i| dv0[*i] > 0.0);
                let neg = (0..q.len()).find(|i| dv0[*i] <= 0.0);
                if let (Some(ia), Some(ib)) = (pos, neg) {
                    let (ra, rb) = (q[ia].clone(), q[ib].clone());
                    let (mut lo, mut hi) = (0.0f64, 1.0f64); // dv(lo) > 0, dv(hi) <= 0
                    let mut ok = true;
                    for _ in 0..64 {
                        let mid = 0.5 * (lo + hi);
                        if mid <= lo || mid >= hi {
                            break;
                        }
                        match eval(&vec![point(&ra, &rb, mid)]) {
                            Some((dvm, _)) => if dvm[0] > 0.0 { lo = mid } else { hi = mid },
                            None => { ok = false; break; }
                        }
                    }
                    if ok {
                        let root = 0.5 * (lo + hi);
                        let mut ts = vec![lo, hi, root];
                        let mut e = -52;
                        while e <= -12 {
                            let s = (2.0f64).powi(e);
                            for j in 1..=3 {
                                ts.push((root + j as f64 * s).min(1.0));
                                ts.push((root - j as f64 * s).max(0.0));
                            }
                            e += 2;
                        }
                        let pts: Vec<Vec<f64>> = ts.iter().map(|t| point(&ra, &rb, *t)).collect();
                        if let Some((dvp, labp)) = eval(&pts) {
                            d.f64s(&dvp).f64s(&labp);
                            rep.count("steps.boundary-probe-points", pts.len() as u64);
                            rep.count("probe.boundary-probe-both-signs", (dvp.iter().any(|v| *v > 0.0) && dvp.iter().any(|v| *v <= 0.0)) as u64);
                            let tiny = dvp.iter().filter(|v| v.abs() <= 1e-12 * (1.0 + b.abs())).count();
                            rep.count("probe.boundary-probe-decision-within-1e-12", (tiny > 0) as u64);
                            for i in 0..pts.len() {
                                let want = if dvp[i] > 0.0 { classes[1] } else { classes[0] };
                                if labp[i] != want {
                                    rep.fail("label-rule", "svc-predict-at-boundary", format!("{}: predict({:?}) = {} although decision_function reports {:e} for the same row (classes {:?})", ctx, pts[i], labp[i], dvp[i], classes));
                                    break;
                                }
                            }
                        }
                    }
                }
            }
        }
        // 6c./6d. the same rows again - many of them in one call, and through a restored copy of the model. Every
        // answer must agree with the first one (both are within `expand` of the closed-form expansion) and obey the
        // label rule on its own decision value.
        if rep.violation.is_none() && classes.len() == 2 {
            if let Some((dv0, _lab0)) = &base_out {
                let same = |what: &str, rep: &mut Report, src: &[usize], dvb: &[f64], labb: &[f64]| {
                    if dvb.len() != src.len() || labb.len() != src.len() {
                        rep.fail("shape", "svc-predict", format!("{}: {}: {} decision values / {} labels for {} rows", ctx, what, dvb.len(), labb.len(), src.len()));
                        return;
                    }
                    for (j, s) in src.iter().enumerate() {
                        let (a, b0) = (dvb[j], dv0[*s]);
                        let agree = if mags[*s].is_finite() { (a - b0).abs() <= 2.0 * t.expand * mags[*s] } else { true };
                        if !agree {
                            rep.fail("kernel-expansion", "svc-decision-function", format!("{}: {}: row {} of {} ({:?}) has decision value {:e}, but {:e} when asked in the standard call", ctx, what, j, src.len(), q[*s], a, b0));
                            return;
                        }
                        let want = if a > 0.0 { classes[1] } else { classes[0] };
                        if labb[j] != want {
                            rep.fail("label-rule", "svc-predict", format!("{}: {}: row {} of {} ({:?}): predict = {} although the decision value is {:e} (classes {:?})", ctx, what, j, src.len(), q[*s], labb[j], a, classes));
                            return;
                        }
                    }
                };
                let tof = |v: Vec<T>| -> Vec<f64> { v.iter().map(|x| x.to_f64().unwrap_or(f64::NAN)).collect() };
                if case.post.requery > 0 {
                    let m = q.len();
                    let src: Vec<usize> = if case.post.requery == 1 { (0..m).rev().collect() } else { (0..m).map(|j| (j + 1 + (case.tape.seed % m as u64) as usize) % m).collect() };
                    let again: Vec<Vec<f64>> = src.iter().map(|s| q[*s].clone()).collect();
                    let am: DenseMatrix<T> = mat(&again);
                    rep.count("fault.same-rows-asked-again-in-another-order", 1);
                    // (the standard call is repeated first, so that the reordered matrix follows a call of the same shape)
                    match guarded(|| { let _ = model.decision_function(&qm); let _ = model.predict(&qm); (model.decision_function(&am), model.predict(&am)) }) {
                        Ok((Ok(dvb), Ok(labb))) => same("the same rows in another order", rep, &src, &tof(dvb), &tof(labb)),
                        Ok((a, bb)) => rep.fail("predict-error", "svc-predict", format!("{}: second query failed: {:?} {:?}", ctx, a.err().map(|e| e.to_string()), bb.err().map(|e| e.to_string()))),
                        Err(msg) => rep.fail("panic", "svc-predict", format!("{}: second query panicked: {}", ctx, msg)),
                    }
                }
                if case.post.many > 0 && rep.violation.is_none() {
                    let src = many_rows_src(case.post.many, q.len(), case.tape.seed);
                    let big: Vec<Vec<f64>> = src.iter().map(|s| q[*s].clone()).collect();
                    let bm: DenseMatrix<T> = mat(&big);
                    rep.count("fault.many-rows-in-one-call", 1);
                    rep.count("steps.rows-in-many-row-calls", src.len() as u64);
                    match guarded(|| (model.decision_function(&bm), model.predict(&bm))) {
                        Ok((Ok(dvb), Ok(labb))) => same(&format!("one call with {} rows", src.len()), rep, &src, &tof(dvb), &tof(labb)),
                        Ok((a, bb)) => rep.fail("predict-error", "svc-predict", format!("{}: decision_function / predict on {} rows failed: {:?} {:?}", ctx, src.len(), a.err().map(|e| e.to_string()), bb.err().map(|e| e.to_string()))),
                        Err(msg) => rep.fail("panic", "svc-predict", format!("{}: decision_function / predict on {} rows panicked: {}", ctx, src.len(), msg)),
                    }
                }
                if case.post.roundtrip > 0 && rep.violation.is_none() {
                    let restored: Result<SVC<T, DenseMatrix<T>, Counting<K>>, String> = T::restore_svc(&model, case.post.roundtrip);
                    rep.count("fault.model-restored-from-serialised-form", 1);
                    match restored {
                        Err(e) => rep.fail("restore-failed", "svc-model", format!("{}: the fitted model does not survive serialisation: {}", ctx, e)),
                        Ok(m2) => {
                            let src: Vec<usize> = (0..q.len()).collect();
                            match guarded(|| (m2.decision_function(&qm), m2.predict(&qm))) {
                                Ok((Ok(dvb), Ok(labb))) => same("restored model", rep, &src, &tof(dvb), &tof(labb)),
                                Ok((a, bb)) => rep.fail("predict-error", "svc-predict", format!("{}: restored model: decision_function / predict failed: {:?} {:?}", ctx, a.err().map(|e| e.to_string()), bb.err().map(|e| e.to_string()))),
                                Err(msg) => rep.fail("panic", "svc-predict", format!("{}: restored model: decision_function / predict panicked: {}", ctx, msg)),
                            }
                        }
                    }
                }
            }
        }
        rep.count("steps.kernel_evals_predict", count.get() - before);
        rep.count("probe.conflicting-duplicate-sv", conflicting_dups as u64);
        rep.count("probe.no-support-vectors", inst.is_empty() as u64);
        rep.count("probe.all-rows-support-vectors", (inst.len() == n) as u64);
        rep.count("probe.coefficient-at-bound", w.iter().any(|x| (x.abs() - c_eff).abs() <= 1e-9 * c_eff) as u64);
        rep.count("probe.zero-coefficient-sv-kept", w.iter().any(|x| *x == 0.0) as u64);
        // schedule: the decoded visiting orders
        if !inst.is_empty() && labels.len() == 2 {
            let perms = decode_schedule(n, &log.words, 1 + case.epoch);
            let mut sd = Digest::new();
            sd.usize(n);
            for pm in &perms {
                sd.usizes(pm);
            }
            rep.schedule = Some(sd.get());
        }
        sv_rows.sort_unstable();
        let mut st = Digest::new();
        st.usizes(&sv_rows);
        rep.states.push(st.get());
        rep.log_digest = d.get();
    }

    fn run_svr<T, K>(&self, case: &Case, inner: K, rep: &mut Report)
    where
        T: Elem,
        K: Kernel<T, Vec<T>> + Serialize + DeserializeOwned + Clone,
    {
        let n = case.x.len();
        // the implementation sees the parameters rounded to the element type; the oracles must judge against those
        let c_eff = T::from_f64(case.c).unwrap().to_f64().unwrap();
        let tol_eff = T::from_f64(case.tol).unwrap().to_f64().unwrap();
        let eps_eff = T::from_f64(case.eps).unwrap().to_f64().unwrap();
        let _ = (tol_eff, eps_eff);
        let p = case.x[0].len();
        let x: DenseMatrix<T> = mat(&case.x);
        let y: Vec<T> = vecf(&case.y);
        let xs: Vec<Vec<f64>> = case.x.iter().map(|r| r.iter().map(|v| T::from_f64(*v).unwrap().to_f64().unwrap()).collect()).collect();
        let ys: Vec<f64> = y.iter().map(|v| v.to_f64().unwrap()).collect();
        let ctx = format!(
            "SVR::fit(n={}, p={}, kernel={}(g={},d={},c0={}), C={}, eps={}, tol={}, f32={})",
            n, p, case.kernel.kind, case.kernel.gamma, case.kernel.degree, case.kernel.coef0, c_eff, eps_eff, tol_eff, case.f32m
        );
        let count = Rc::new(Cell::new(0u64));
        let kern = Counting { inner, count: count.clone(), budget: 0 };
        let ticks = Rc::new(Cell::new(0u64));
        let guard = TapeGuard::install(&case.tape);
        let res = {
            install_tick_observer(ticks.clone(), case.budget);
            let _tg = TickGuard;
            let params = if case.ctor % 2 == 0 {
                SVRParameters::default()
                    .with_c(T::from_f64(c_eff).unwrap())
                    .with_tol(T::from_f64(tol_eff).unwrap())
                    .with_eps(T::from_f64(eps_eff).unwrap())
                    .with_kernel(kern)
            } else {
                SVRParameters::default()
                    .with_kernel(kern)
                    .with_eps(T::from_f64(eps_eff).unwrap())
                    .with_tol(T::from_f64(tol_eff).unwrap())
                    .with_c(T::from_f64(c_eff).unwrap())
            };
            { let params = if case.post.clone_params { let c2 = params.clone(); drop(params); c2 } else { params }; guarded(|| if case.ctor / 2 == 1 { <SVR<T, DenseMatrix<T>, _> as SupervisedEstimator<DenseMatrix<T>, Vec<T>, _>>::fit(&x, &y, params) } else { SVR::fit(&x, &y, params) }) }
        };
        let log = guard.log();
        drop(guard);
        rep.count("steps.svr_smo_iterations", ticks.get());
        rep.count("fault.resonant-parameter", (case.kind == "svr-resonant") as u64);
        rep.count("steps.svr_kernel_evals", count.get());
        rep.max("svr_smo_iterations_per_fit", ticks.get() as f64);
        rep.count("probe.svr-iterations>1e4", (ticks.get() > 10_000) as u64);
        rep.count("probe.svr-iterations>1e5", (ticks.get() > 100_000) as u64);
        rep.count("probe.svr-iterations>1e6", (ticks.get() > 1_000_000) as u64);
        rep.count("probe.svr-iterations>1e7", (ticks.get() > 10_000_000) as u64);
        rep.count("probe.svr-iterations>2^24", (ticks.get() > (1 << 24)) as u64);
        rep.count("probe.svr-iterations>1e5*n", (ticks.get() > 100_000 * n as u64) as u64);
        if ticks.get() > 100_000 {
            rep.max(&format!("svr_slow_iters[{},C={},tol={},eps={},n={}]", case.kernel.kind, c_eff, tol_eff, eps_eff, n), ticks.get() as f64);
        }
        rep.count("probe.svr-drew-from-ambient-rng", (!log.words.is_empty()) as u64);
        let mut d = Digest::new();
        d.u64(log.digest()).u64(ticks.get());
        let model = match res {
            Err(msg) => {
                if msg.starts_with("state-cycle") {
                    rep.fail("no-termination", "svr-state-cycle", format!("{}: never terminates: {}", ctx, msg));
                } else if msg.starts_with("step-budget") {
                    rep.fail("no-termination", "svr-step-budget", format!("{}: did not terminate within the logical step budget: {}", ctx, msg));
                } else {
                    rep.fail("panic", "svr-fit", format!("{} panicked: {}", ctx, msg));
                }
                rep.log_digest = d.get();
                return;
            }
            Ok(Err(e)) => {
                rep.fail("fit-error", "svr-fit", format!("{} failed: {}", ctx, e));
                rep.log_digest = d.get();
                return;
            }
            Ok(Ok(m)) => m,
        };
        let v = serde_json::to_value(&model).unwrap_or(Value::Null);
        let inst = rows_of(&v["instances"]);
        let w = f64s_of(&v["w"]);
        let b = v["b"].as_f64().unwrap_or(f64::NAN);
        for r in &inst {
            d.f64s(r);
        }
        d.f64s(&w).f64(b);
        let t = tols(case.f32m);
        if inst.len() != w.len() {
            rep.fail("shape", "svr-model", format!("{}: {} support vectors, {} coefficients", ctx, inst.len(), w.len()));
            rep.log_digest = d.get();
            return;
        }
        if !b.is_finite() || w.iter().any(|x| !x.is_finite()) {
            rep.fail("non-finite", "svr-model", format!("{}: b = {}, w has non-finite entries", ctx, b));
            rep.log_digest = d.get();
            return;
        }
        // coefficient per training row (workload has pairwise distinct rows)
        let mut wrow = vec![0.0f64; n];
        for (i, sv) in inst.iter().enumerate() {
            match (0..n).find(|r| bits_eq(&xs[*r], sv)) {
                None => rep.fail("sv-not-training-row", "svr-model", format!("{}: support vector {} = {:?} is not a training row", ctx, i, sv)),
                Some(r) => wrow[r] += w[i],
            }
            rep.max(if case.f32m { "svr_box_excess_rel_f32" } else { "svr_box_excess_rel_f64" }, (w[i].abs() - c_eff).max(0.0) / c_eff);
            if !(w[i].abs() <= c_eff * (1.0 + t.box_rel)) {
                rep.fail("box", "svr-dual-feasibility", format!("{}: |w_{}| = {:e} exceeds C = {}", ctx, i, w[i].abs(), c_eff));
            }
        }
        let sw: f64 = w.iter().sum();
        rep.max(if case.f32m { "svr_sum_w_rel_f32" } else { "svr_sum_w_rel_f64" }, sw.abs() / (c_eff * n as f64));
        // every SMO step adds the same amount to one multiplier of each side (or clips one with an assignment and
        // recomputes the other): in exact arithmetic the sum stays 0, in floating point each step contributes at most
        // two roundings of a value <= C, and the n differences alpha_1 - alpha_0 one more each. Judged with 4x that;
        // never looser than the flat bound used before.
        let eps_t = if case.f32m { f32::EPSILON as f64 } else { f64::EPSILON };
        let sum_tol = 4.0 * eps_t * (ticks.get() as f64 + n as f64 + 8.0) * c_eff;
        rep.max(if case.f32m { "svr_sum_w_over_tol_f32" } else { "svr_sum_w_over_tol_f64" }, sw.abs() / sum_tol);
        if !(sw.abs() <= sum_tol) {
            rep.fail("sum-to-zero", "svr-dual-feasibility", format!("{}: coefficients sum to {:e} (more than {:e} after {} steps)", ctx, sw, sum_tol, ticks.get()));
        }
        // prediction = kernel expansion; optimality conditions at every training point
        let mut q: Vec<Vec<f64>> = xs.clone();
        q.extend(case.queries.iter().map(|r| r.iter().map(|v| T::from_f64(*v).unwrap().to_f64().unwrap()).collect::<Vec<f64>>()));
        let qm: DenseMatrix<T> = mat(&q);
        let mut base_pr: Option<Vec<f64>> = None;
        let mut mags: Vec<f64> = vec![f64::INFINITY; q.len()];
        match guarded(|| if case.ctor / 2 == 1 { Predictor::<DenseMatrix<T>, Vec<T>>::predict(&model, &qm) } else { model.predict(&qm) }) {
            Err(msg) => rep.fail("panic", "svr-predict", format!("{}: predict panicked: {}", ctx, msg)),
            Ok(Err(e)) => rep.fail("predict-error", "svr-predict", format!("{}: predict failed: {}", ctx, e)),
            Ok(Ok(pr)) => {
                let pr: Vec<f64> = pr.iter().map(|v| v.to_f64().unwrap_or(f64::NAN)).collect();
                d.f64s(&pr);
                if pr.len() == q.len() {
                    base_pr = Some(pr.clone());
                }
                let yscale = ys.iter().fold(1.0f64, |m, v| m.max(v.abs()));
                for (i, row) in q.iter().enumerate() {
                    let mut f = b;
                    let mut mag = 1.0 + b.abs();
                    for (j, sv) in inst.iter().enumerate() {
                        let kv = kref(&case.kernel, row, sv);
                        f += w[j] * kv;
                        mag += (w[j] * kv).abs();
                    }
                    mags[i] = mag;
                    let err = (pr[i] - f).abs() / mag;
                    rep.max(if case.f32m { "svr_expansion_err_rel_f32" } else { "svr_expansion_err_rel_f64" }, err);
                    if !(err <= t.expand) {
                        rep.fail("kernel-expansion", "svr-predict", format!("{}: predict({:?}) = {:e} but b + sum_i w_i K(sv_i, x) = {:e}", ctx, row, pr[i], f));
                        break;
                    }
                    if i < n {
                        // epsilon-insensitive optimality at training point i, judged with the reference expansion
                        let r = ys[i] - f;
                        // f64: tol + rounding of the reference arithmetic.
                        // f32: three legitimate contributions, none of them scaled by the LARGEST target (one outlier
                        // target must not loosen the judgement of every other row):
                        //  (a) the repaired solver stops at max(tol, 8 ulp of the extreme gradients), which are of the
                        //      size of the bias at convergence;
                        //  (b) it updates its gradients incrementally in single precision: after `ticks` iterations row
                        //      i may have drifted by ~ticks ulps (judged with 16 x that) of the largest value its gradient can take,
                        //      |y_i| + eps + C * sum_j |K_ij|;
                        //  (c) the stored f32 coefficients are rounded (256 ulp of the expansion's magnitude).
                        let slack = if case.f32m {
                            let e32 = f32::EPSILON as f64;
                            let gi = ys[i].abs() + eps_eff + c_eff * xs.iter().map(|xj| kref(&case.kernel, row, xj).abs()).sum::<f64>();
                            tol_eff.max(16.0 * e32 * (b.abs() + eps_eff + 1.0)) + 16.0 * e32 * (ticks.get() as f64 + 8.0) * gi + 256.0 * e32 * mag
                        } else {
                            tol_eff + 1e-9 * (yscale + mag)
                        };
                        let aw = wrow[i].abs();
                        // "at the bound" means equal to C up to the representation of w (4 ulp of the element
                        // type): the solver clips with an assignment, and tests `alpha < C` exactly, so anything
                        // visibly below C is a free coefficient and must sit on the tube boundary
                        let at_c = c_eff * (1.0 - 4.0 * if case.f32m { f32::EPSILON as f64 } else { f64::EPSILON });
                        // signed residual: a positive coefficient belongs to a point on / above the upper edge of
                        // the tube (y - f = +eps), a negative one to the lower edge
                        let sr = if wrow[i] < 0.0 { -r } else { r };
                        let (ok, what, excess) = if aw == 0.0 {
                            (r.abs() <= eps_eff + slack, "zero weight but outside the tube", r.abs() - eps_eff)
                        } else if aw >= at_c {
                            (sr >= eps_eff - slack, "|w| = C but strictly inside the tube (or beyond the opposite edge)", eps_eff - sr)
                        } else {
                            ((sr - eps_eff).abs() <= slack, "0 < |w| < C but not on its edge of the tube", (sr - eps_eff).abs())
                        };
                        rep.max(if case.f32m { "svr_kkt_excess_over_tol_f32" } else { "svr_kkt_excess_over_tol_f64" }, excess / tol_eff);
                        rep.max(if case.f32m { "svr_kkt_excess_over_slack_f32" } else { "svr_kkt_excess_over_slack_f64" }, excess / slack);
                        if !ok {
                            rep.fail(
                                "svr-kkt",
                                "svr-optimality",
                                format!("{}: training point {} has w = {:e}, residual y - f(x) = {:e}, eps = {}: {} (slack {:e})", ctx, i, wrow[i], r, eps_eff, what, slack),
                            );
                            break;
                        }
                    }
                }
            }
        }
        if rep.violation.is_none() {
            if let Some(pr0) = &base_pr {
                let same = |what: &str, rep: &mut Report, src: &[usize], prb: &[f64]| {
                    if prb.len() != src.len() {
                        rep.fail("shape", "svr-predict", format!("{}: {}: {} predictions for {} rows", ctx, what, prb.len(), src.len()));
                        return;
                    }
                    for (j, s) in src.iter().enumerate() {
                        if !((prb[j] - pr0[*s]).abs() <= 2.0 * t.expand * mags[*s]) {
                            rep.fail("kernel-expansion", "svr-predict", format!("{}: {}: row {} of {} ({:?}) is predicted as {:e}, but as {:e} in the standard call", ctx, what, j, src.len(), q[*s], prb[j], pr0[*s]));
                            return;
                        }
                    }
                };
                let tof = |v: Vec<T>| -> Vec<f64> { v.iter().map(|x| x.to_f64().unwrap_or(f64::NAN)).collect() };
                if case.post.requery > 0 {
                    let m = q.len();
                    let src: Vec<usize> = if case.post.requery == 1 { (0..m).rev().collect() } else { (0..m).map(|j| (j + 1 + (case.tape.seed % m as u64) as usize) % m).collect() };
                    let again: Vec<Vec<f64>> = src.iter().map(|s| q[*s].clone()).collect();
                    let am: DenseMatrix<T> = mat(&again);
                    rep.count("fault.same-rows-asked-again-in-another-order", 1);
                    match guarded(|| { let _ = model.predict(&qm); model.predict(&am) }) {
                        Ok(Ok(prb)) => same("the same rows in another order", rep, &src, &tof(prb)),
                        Ok(Err(e)) => rep.fail("predict-error", "svr-predict", format!("{}: second query failed: {}", ctx, e)),
                        Err(msg) => rep.fail("panic", "svr-predict", format!("{}: second query panicked: {}", ctx, msg)),
                    }
                }
                if case.post.many > 0 && rep.violation.is_none() {
                    let src = many_rows_src(case.post.many, q.len(), case.tape.seed);
                    let big: Vec<Vec<f64>> = src.iter().map(|s| q[*s].clone()).collect();
                    let bm: DenseMatrix<T> = mat(&big);
                    rep.count("fault.many-rows-in-one-call", 1);
                    rep.count("steps.rows-in-many-row-calls", src.len() as u64);
                    match guarded(|| model.predict(&bm)) {
                        Ok(Ok(prb)) => same(&format!("one call with {} rows", src.len()), rep, &src, &tof(prb)),
                        Ok(Err(e)) => rep.fail("predict-error", "svr-predict", format!("{}: predict on {} rows failed: {}", ctx, src.len(), e)),
                        Err(msg) => rep.fail("panic", "svr-predict", format!("{}: predict on {} rows panicked: {}", ctx, src.len(), msg)),
                    }
                }
                if case.post.roundtrip > 0 && rep.violation.is_none() {
                    let restored: Result<SVR<T, DenseMatrix<T>, Counting<K>>, String> = T::restore_svr(&model, case.post.roundtrip);
                    rep.count("fault.model-restored-from-serialised-form", 1);
                    match restored {
                        Err(e) => rep.fail("restore-failed", "svr-model", format!("{}: the fitted model does not survive serialisation: {}", ctx, e)),
                        Ok(m2) => {
                            let src: Vec<usize> = (0..q.len()).collect();
                            match guarded(|| m2.predict(&qm)) {
                                Ok(Ok(prb)) => same("restored model", rep, &src, &tof(prb)),
                                Ok(Err(e)) => rep.fail("predict-error", "svr-predict", format!("{}: restored model: predict failed: {}", ctx, e)),
                                Err(msg) => rep.fail("panic", "svr-predict", format!("{}: restored model: predict panicked: {}", ctx, msg)),
                            }
                        }
                    }
                }
            }
        }
        rep.count("probe.svr-all-zero-weights", inst.is_empty() as u64);
        rep.count("probe.svr-weight-at-C", w.iter().any(|x| x.abs() >= c_eff * (1.0 - 1e-15)) as u64);
        rep.count("probe.svr-free-weight", w.iter().any(|x| x.abs() > 0.0 && x.abs() < c_eff * (1.0 - 1e-15)) as u64);
        rep.count("probe.svr-weight-within-1e-9-below-C", w.iter().any(|x| x.abs() < c_eff * (1.0 - 1e-15) && x.abs() >= c_eff * (1.0 - 1e-9)) as u64);
        rep.count("probe.svr-weight-between-1e-13-and-1e-12", w.iter().any(|x| x.abs() > 1e-13 && x.abs() <= 1e-12) as u64);
        rep.count("probe.svr-weight-between-1e-16-and-1e-13", w.iter().any(|x| x.abs() > 1e-16 && x.abs() <= 1e-13) as u64);
        rep.count("probe.svr-weight-tiny-nonzero", w.iter().any(|x| x.abs() > 0.0 && x.abs() < 1e-9 * c_eff) as u64);
        let mut st = Digest::new();
        st.f64s(&wrow.iter().map(|v| v.signum()).collect::<Vec<_>>());
        rep.states.push(st.get());
        rep.log_digest = d.get();
    }

    fn run_kernel<T, K>(&self, case: &Case, k: K, rep: &mut Report)
    where
        T: RealNumber,
        K: Kernel<T, Vec<T>>,
    {
        let pts: Vec<Vec<f64>> = case.x.iter().map(|r| r.iter().map(|v| T::from_f64(*v).unwrap().to_f64().unwrap()).collect()).collect();
        let tp: Vec<Vec<T>> = case.x.iter().map(|r| vecf(r)).collect();
        let m = pts.len();
        let rel = if case.f32m { 2e-5 } else { 1e-12 };
        let mut gram = vec![vec![0.0f64; m]; m];
        let mut d = Digest::new();
        let ctx = format!("kernel {}(g={},d={},c0={}) f32={}", case.kernel.kind, case.kernel.gamma, case.kernel.degree, case.kernel.coef0, case.f32m);
        for i in 0..m {
            for j in 0..m {
                let got = match guarded(|| k.apply(&tp[i], &tp[j]).to_f64().unwrap_or(f64::NAN)) {
                    Ok(v) => v,
                    Err(msg) => {
                        rep.fail("panic", "kernel-apply", format!("{}: apply panicked: {}", ctx, msg));
                        rep.log_digest = d.get();
                        return;
                    }
                };
                gram[i][j] = got;
                d.f64(got);
                let want = kref(&case.kernel, &pts[i], &pts[j]);
                // error relative to the magnitude of the terms that enter the closed form (a base that
                // cancels to ~0 must not turn rounding of its terms into a "relative" error)
                let absdot: f64 = pts[i].iter().zip(&pts[j]).map(|(a, b)| (a * b).abs()).sum();
                let den = match case.kernel.kind.as_str() {
                    "linear" => absdot,
                    "poly" => (case.kernel.gamma.abs() * absdot + case.kernel.coef0.abs()).powf(case.kernel.degree),
                    _ => 1.0,
                }
                // ... and values below its normal range underflow legitimately (x^19 for |x| < 0.03 is 0 in f32): no relative
                // accuracy can be asked for there, the error is judged against the smallest normal number instead
                .max(if case.f32m { f32::MIN_POSITIVE as f64 } else { f64::MIN_POSITIVE });
                // values beyond the range of the element type overflow to inf legitimately (degree 5 on offsets of 1e4 in f32)
                let tmax = if case.f32m { f32::MAX as f64 } else { f64::MAX };
                if want.is_finite() && want.abs() < tmax * 1e-3 && den < tmax * 1e-3 {
                    let err = (got - want).abs() / den;
                    rep.max(if case.f32m { "kernel_closed_form_err_rel_f32" } else { "kernel_closed_form_err_rel_f64" }, err);
                    let allow = rel * (1.0 + case.kernel.degree.abs()) * 8.0;
                    if !(err <= allow) {
                        rep.fail("kernel-closed-form", "kernel-apply", format!("{}: K({:?}, {:?}) = {:e}, closed form {:e}", ctx, pts[i], pts[j], got, want));
                    }
                    // tiny values are values too: where the closed form is a positive number the element type can still
                    // represent (at least 64 units of its smallest subnormal), the kernel must not be exactly zero and
                    // must be of the right size (the absolute test above cannot see anything below 1e-16)
                    let tiny = 64.0 * if case.f32m { f32::from_bits(1) as f64 } else { f64::from_bits(1) };
                    if case.kernel.kind == "rbf" && want >= tiny && want < 1e-30 {
                        rep.count("probe.rbf-value-below-1e-30", 1);
                        if !(got >= 0.25 * want && got <= 4.0 * want) {
                            rep.fail("kernel-closed-form", "kernel-apply-tiny-value", format!("{}: K({:?}, {:?}) = {:e}, closed form {:e}", ctx, pts[i], pts[j], got, want));
                        }
                    }
                }
            }
        }
        for i in 0..m {
            for j in 0..i {
                let a = gram[i][j];
                let b = gram[j][i];
                if !(a == b || (a - b).abs() <= 1e-14 * (a.abs() + b.abs()) || (a.is_nan() && b.is_nan())) {
                    rep.fail("kernel-asymmetric", "kernel-apply", format!("{}: K(a,b) = {:e} but K(b,a) = {:e} for a={:?}, b={:?}", ctx, a, b, pts[i], pts[j]));
                }
            }
        }
        if case.kernel.kind == "linear" || case.kernel.kind == "rbf" {
            let gmax = gram.iter().enumerate().map(|(i, r)| r[i].abs()).fold(0.0f64, f64::max).max(1e-300);
            let mut r = Xo::new(case.tape.seed);
            let mut zs: Vec<Vec<f64>> = vec![];
            for i in 0..m {
                for j in 0..i {
                    let mut z = vec![0.0; m];
                    z[i] = 1.0;
                    z[j] = -1.0;
                    zs.push(z);
                }
            }
            for _ in 0..8 {
                zs.push((0..m).map(|_| r.range(-1.0, 1.0)).collect());
            }
            let psd_tol = if case.f32m { 1e-4 } else { 1e-10 };
            for z in &zs {
                let mut q = 0.0;
                for i in 0..m {
                    for j in 0..m {
                        q += z[i] * gram[i][j] * z[j];
                    }
                }
                let zz: f64 = z.iter().map(|v| v * v).sum();
                rep.max(if case.f32m { "psd_negativity_rel_f32" } else { "psd_negativity_rel_f64" }, (-q / (zz * gmax * m as f64)).max(0.0));
                if !(q >= -psd_tol * zz * gmax * m as f64) {
                    rep.fail("gram-not-psd", "kernel-apply", format!("{}: z^T G z = {:e} < 0 for z = {:?} on {} points", ctx, q, z, m));
                    break;
                }
            }
        }
        rep.count("steps.kernel_pairs_checked", (m * m) as u64);
        rep.log_digest = d.get();
    }

    fn dispatch<T: Elem>(&self, case: &Case, rep: &mut Report) {
        let g = T::from_f64(case.kernel.gamma).unwrap();
        let dg = T::from_f64(case.kernel.degree).unwrap();
        let c0 = T::from_f64(case.kernel.coef0).unwrap();
        macro_rules! go {
            ($k:expr) => {
                match case.model.as_str() {
                    "svc" => self.run_svc::<T, _>(case, $k, rep),
                    "svr" => self.run_svr::<T, _>(case, $k, rep),
                    "kernel" => self.run_kernel::<T, _>(case, $k, rep),
                    _ => rep.fail("harness-panic", "c10", format!("unknown model {}", case.model)),
                }
            };
        }
        match case.kernel.kind.as_str() {
            "linear" => go!(Kernels::linear()),
            "rbf" => go!(Kernels::rbf(g)),
            "poly" => go!(Kernels::polynomial(dg, g, c0)),
            "sigmoid" => go!(Kernels::sigmoid(g, c0)),
            _ => rep.fail("harness-panic", "c10", format!("unknown kernel {}", case.kernel.kind)),
        }
    }
}

// ------------------------------------------------------------------------------------------
// workload
// ------------------------------------------------------------------------------------------

/// log-uniform in [lo, hi]
fn logu(r: &mut Xo, lo: f64, hi: f64) -> f64 {
    (lo.ln() + (hi.ln() - lo.ln()) * r.f64()).exp()
}

fn gen_kernel(r: &mut Xo, psd_only: bool, small_poly: bool) -> KSpec {
    let mut k = gen_kernel_grid(r, psd_only, small_poly);
    // half of the time off the grid: continuous kernel parameters
    if r.chance(0.5) {
        match k.kind.as_str() {
            "rbf" => k.gamma = logu(r, 0.01, 10.0),
            "poly" => {
                k.gamma = logu(r, 0.1, 1.0);
                k.coef0 = r.range(0.0, 2.0);
            }
            "sigmoid" => {
                k.gamma = logu(r, 0.01, 0.5);
                k.coef0 = r.range(-1.0, 1.0);
            }
            _ => {}
        }
    }
    k
}

fn gen_kernel_grid(r: &mut Xo, psd_only: bool, small_poly: bool) -> KSpec {
    let kinds: &[&str] = if psd_only { &["linear", "rbf", "poly"] } else { &["linear", "rbf", "poly", "sigmoid"] };
    let kind = r.pick(kinds).to_string();
    match kind.as_str() {
        "linear" => KSpec { kind, gamma: 0.0, degree: 0.0, coef0: 0.0 },
        "rbf" => KSpec { kind, gamma: *r.pick(&[0.01, 0.1, 0.5, 1.0, 2.0, 10.0]), degree: 0.0, coef0: 0.0 },
        "poly" => KSpec {
            kind,
            gamma: *r.pick(&[0.1, 0.5, 1.0]),
            degree: if small_poly { *r.pick(&[1.0, 2.0]) } else { *r.pick(&[1.0, 2.0, 3.0]) },
            coef0: *r.pick(&[0.0, 1.0, 2.0]),
        },
        _ => KSpec { kind, gamma: *r.pick(&[0.01, 0.1, 0.5]), degree: 0.0, coef0: *r.pick(&[-1.0, 0.0, 1.0]) },
    }
}

fn gen_two_class(r: &mut Xo, n: usize, p: usize) -> (Vec<Vec<f64>>, Vec<f64>, String) {
    let scale = *r.pick(&[0.1, 1.0, 1.0, 3.0, 10.0]);
    let sep = *r.pick(&[0.0, 0.3, 1.0, 3.0]); // 0 = heavily overlapping
    let layout = if sep >= 3.0 { "separable" } else { "overlapping" };
    let dir: Vec<f64> = (0..p).map(|_| r.range(-1.0, 1.0)).collect();
    let (lo, hi) = match r.below(5) {
        0 => (-1.0, 1.0),
        1 => (0.0, 1.0),
        2 => (-3.0, 2.5),
        3 => (-7.0, -2.0),
        _ => (1.0, 2.0),
    };
    let npos = r.usize_in(1, n - 1);
    let mut lab: Vec<bool> = (0..n).map(|i| i < npos).collect();
    r.shuffle(&mut lab);
    let mut x: Vec<Vec<f64>> = (0..n)
        .map(|i| {
            let s = if lab[i] { 1.0 } else { -1.0 };
            (0..p).map(|j| scale * (s * sep * dir[j] + 0.7 * r.gaussish())).collect()
        })
        .collect();
    let mut kind = layout.to_string();
    // sometimes put the rows on a lattice that is symmetric about zero: sign-coded features (-1 / +1) or small
    // integers; kernel values, gradients and decision values are then exact and tie (also exactly at 0)
    match r.below(12) {
        0 => {
            for row in x.iter_mut() {
                for v in row.iter_mut() {
                    *v = if *v < 0.0 { -1.0 } else { 1.0 };
                }
            }
            kind.push_str("+sign-coded");
        }
        1 => {
            for row in x.iter_mut() {
                for v in row.iter_mut() {
                    *v = (*v / scale).round().max(-3.0).min(3.0) + 0.0;
                }
            }
            kind.push_str("+integer-lattice");
        }
        _ => {}
    }
    if p > 1 && r.chance(0.08) {
        // a constant feature
        let col = r.below(p as u64) as usize;
        for row in x.iter_mut() {
            row[col] = 1.0;
        }
        kind.push_str("+constant-column");
    }
    if p > 1 && n >= 3 && r.chance(0.04) {
        // one row far away and exactly orthogonal to all others (BIG * e_j, the others have 0 in column j): under
        // a linear / polynomial kernel its coefficient is tiny (~1 / BIG^2) while its kernel with itself is huge,
        // so its term in the expansion is of order one
        let col = r.below(p as u64) as usize;
        let at = r.below(n as u64) as usize;
        let big = *r.pick(&[3.0e3, 1.0e5, 1.0e6, 1.0e9]);
        for (i, row) in x.iter_mut().enumerate() {
            if i == at {
                for v in row.iter_mut() {
                    *v = 0.0;
                }
                row[col] = big;
            } else {
                row[col] = 0.0;
            }
        }
        kind.push_str("+far-orthogonal-row");
    }
    if r.chance(0.03) {
        // perfectly ambiguous input: every row identical (decision values are exactly 0 by symmetry)
        let first = x[0].clone();
        for row in x.iter_mut() {
            *row = first.clone();
        }
        kind.push_str("+all-rows-identical");
    }
    if r.chance(0.2) && n >= 4 {
        // exact duplicate rows, some with conflicting labels
        let dups = r.usize_in(1, (n / 3).max(1));
        for _ in 0..dups {
            let a = r.below(n as u64) as usize;
            let b = r.below(n as u64) as usize;
            if a != b {
                x[b] = x[a].clone();
            }
        }
        kind.push_str("+duplicates");
    }
    let y: Vec<f64> = lab.iter().map(|l| if *l { hi } else { lo }).collect();
    (x, y, kind)
}

fn small_datasets() -> &'static Vec<(Vec<Vec<f64>>, Vec<f64>)> {
    static S: OnceLock<Vec<(Vec<Vec<f64>>, Vec<f64>)>> = OnceLock::new();
    S.get_or_init(|| {
        let mut out = vec![];
        for n in 3..=5usize {
            // separable on a line, overlapping 2-d, conflicting duplicate
            let x1: Vec<Vec<f64>> = (0..n).map(|i| vec![i as f64 - (n as f64 - 1.0) / 2.0]).collect();
            let y1: Vec<f64> = (0..n).map(|i| if i < n / 2 { -1.0 } else { 1.0 }).collect();
            out.push((x1, y1));
            let x2: Vec<Vec<f64>> = (0..n).map(|i| vec![((i * 7) % 5) as f64 * 0.5, ((i * 3) % 4) as f64 - 1.0]).collect();
            let y2: Vec<f64> = (0..n).map(|i| if i % 2 == 0 { 0.0 } else { 1.0 }).collect();
            out.push((x2, y2));
            let mut x3: Vec<Vec<f64>> = (0..n).map(|i| vec![i as f64, 1.0]).collect();
            x3[n - 1] = x3[0].clone();
            let mut y3: Vec<f64> = (0..n).map(|i| if i % 2 == 0 { 2.0 } else { 5.0 }).collect();
            y3[n - 1] = if y3[0] == 2.0 { 5.0 } else { 2.0 };
            out.push((x3, y3));
        }
        out
    })
}

/// exhaustive small schedules: every (initialize order, epoch order) pair for n = 3, 4, 5
fn exhaustive_small() -> &'static Vec<(usize, Vec<Word>)> {
    static S: OnceLock<Vec<(usize, Vec<Word>)>> = OnceLock::new();
    S.get_or_init(|| {
        let mut out = vec![];
        let ds = small_datasets();
        for (di, (x, _)) in ds.iter().enumerate() {
            let n = x.len();
            let f = factorial(n);
            for a in 0..f {
                let pa = words_for_permutation(&nth_permutation(n, a));
                for b in 0..f {
                    let mut w = pa.clone();
                    w.extend(words_for_permutation(&nth_permutation(n, b)));
                    out.push((di, w));
                }
            }
        }
        out
    })
}

const DEFAULT_BUDGET: u64 = 4_000_000_000;

fn gen_case(batch: &str, index: u64, seed: u64) -> Case {
    let mut r = Xo::fork(seed, "workload");
    let mut pr = Xo::fork(seed, "parameters");
    let tape_seed = Xo::fork(seed, "schedule").u64();
    let f32m = batch.ends_with("-f32");
    match batch {
        "svc-exhaustive-small" => {
            let (di, words) = &exhaustive_small()[index as usize];
            let (x, y) = small_datasets()[*di].clone();
            let kernel = match index % 3 {
                0 => KSpec { kind: "linear".into(), gamma: 0.0, degree: 0.0, coef0: 0.0 },
                1 => KSpec { kind: "rbf".into(), gamma: 0.5, degree: 0.0, coef0: 0.0 },
                _ => KSpec { kind: "poly".into(), gamma: 0.5, degree: 2.0, coef0: 1.0 },
            };
            Case { model: "svc".into(), x, y, kernel, c: [0.1, 1.0, 10.0][(index % 3) as usize], tol: 1e-3, epoch: 1, eps: 0.0, f32m: false, queries: vec![vec![0.25; small_datasets()[*di].0[0].len()]], budget: DEFAULT_BUDGET, tape: TapeSpec::prng(tape_seed).with_prefix(words.clone()), kind: "forced-permutation/exhaustive".into(), ctor: (seed % 4) as u8, post: post_of(seed) }
        }
        "kernels" | "kernels-f32" => {
            let m = pr.usize_in(2, 10);
            let p = pr.usize_in(1, 6);
            let scale = *pr.pick(&[0.1, 1.0, 3.0]);
            // points far from the origin relative to their mutual distances (years, prices, timestamps): the
            // closed forms must hold there too
            let koff = if f32m { *pr.pick(&[0.0, 0.0, 100.0, 1000.0, 10_000.0]) } else { *pr.pick(&[0.0, 0.0, 100.0, 10_000.0, 1.0e6, 1.7e9]) };
            let x: Vec<Vec<f64>> = (0..m).map(|_| (0..p).map(|_| koff + scale * r.range(-1.0, 1.0)).collect()).collect();
            let mut kernel = gen_kernel(&mut pr, false, false);
            if kernel.kind == "poly" && pr.chance(0.3) {
                kernel.coef0 = 1.0; // keep the base positive for non-integer-safe powf
            }
            if kernel.kind == "poly" && pr.chance(0.4) {
                // every small integer degree, including the constant kernel (degree 0)
                kernel.degree = *pr.pick(&[0.0, 0.0, 1.0, 2.0, 3.0, 4.0, 5.0]);
                // ... and larger ones: whole-number degrees have no upper end (values beyond the element type's range are not judged)
                if pr.chance(0.4) {
                    kernel.degree = pr.usize_in(6, 20) as f64;
                }
            }
            let mut x = x;
            if kernel.kind == "poly" && pr.chance(0.3) {
                // the degree is a real number: fractional powers of a non-negative base are part of the closed form
                kernel.degree = if pr.chance(0.6) { *pr.pick(&[0.5, 1.5, 2.5, 3.5]) } else { pr.range(0.05, 4.95) };
                if kernel.degree < 1.0 || pr.chance(0.7) {
                    for row in x.iter_mut() {
                        for v in row.iter_mut() {
                            *v = v.abs();
                        }
                    }
                    kernel.coef0 = kernel.coef0.abs();
                }
            }
            Case { model: "kernel".into(), x, y: vec![], kernel, c: 1.0, tol: 1e-3, epoch: 1, eps: 0.0, f32m, queries: vec![], budget: 0, tape: TapeSpec::prng(tape_seed), kind: "kernel-closed-form".into(), ctor: (seed % 4) as u8, post: post_of(seed) }
        }
        "svr-hard" | "svr-hard-tight" => {
            // the slowly converging corner the fast batch leaves out: large C times large kernel values
            // (linear / quadratic kernels on features in [-3, 3], C = 100, tol down to 1e-4, n up to 60)
            let n = if batch == "svr-hard-tight" { pr.usize_in(20, 30) } else { pr.usize_in(20, 60) };
            let p = pr.usize_in(2, 5);
            let x: Vec<Vec<f64>> = (0..n).map(|_| (0..p).map(|_| r.range(-3.0, 3.0)).collect()).collect();
            let coef: Vec<f64> = (0..p).map(|_| r.range(-2.0, 2.0)).collect();
            let tight = batch == "svr-hard-tight";
            let noise = if tight { 0.1 } else { 1.0 };
            let y: Vec<f64> = x.iter().map(|row| row.iter().zip(&coef).map(|(a, b)| a * b).sum::<f64>() + 0.3 * row[0] * row[0] + noise * r.range(-1.0, 1.0)).collect();
            // the tight batch concentrates on the slowest configuration seen: quadratic kernel, low noise
            let kernel = match if tight { 1 } else { pr.below(3) } {
                0 => KSpec { kind: "linear".into(), gamma: 0.0, degree: 0.0, coef0: 0.0 },
                1 => KSpec { kind: "poly".into(), gamma: 0.5, degree: 2.0, coef0: 1.0 },
                _ => KSpec { kind: "rbf".into(), gamma: *pr.pick(&[0.1, 0.5]), degree: 0.0, coef0: 0.0 },
            };
            let queries = (0..3).map(|_| (0..p).map(|_| r.range(-3.0, 3.0)).collect()).collect();
            Case { model: "svr".into(), x, y, kernel, c: 100.0, tol: if batch == "svr-hard-tight" { 1e-4 } else { 1e-3 }, epoch: 0, eps: *pr.pick(&[0.0, 0.1]), f32m: false, queries, budget: 4_000_000_000, tape: TapeSpec::prng(tape_seed), kind: "svr-hard".into(), ctor: (seed % 4) as u8, post: post_of(seed) }
        }
        "svr-large-features" => {
            // large kernel curvature (linear kernel on features of magnitude 30..300, quadratic on ~10): steps in
            // alpha are tiny in absolute terms although the fit is far from optimal
            let f32v = pr.chance(0.6);
            let n = pr.usize_in(6, 16);
            let p = pr.usize_in(1, 3);
            let fs = *pr.pick(&[30.0, 100.0, 300.0]);
            let quad = pr.chance(0.3);
            let fs = if quad { 10.0 } else { fs };
            let x: Vec<Vec<f64>> = (0..n).map(|_| (0..p).map(|_| fs * r.range(-1.0, 1.0)).collect()).collect();
            let coef: Vec<f64> = (0..p).map(|_| r.range(-0.02, 0.02)).collect();
            let eps = *pr.pick(&[0.1, 0.2]);
            let y: Vec<f64> = x.iter().map(|row| row.iter().zip(&coef).map(|(a, b)| a * b).sum::<f64>() + 0.5 * eps * r.range(-1.0, 1.0)).collect();
            let kernel = if quad { KSpec { kind: "poly".into(), gamma: 0.5, degree: 2.0, coef0: 1.0 } } else { KSpec { kind: "linear".into(), gamma: 0.0, degree: 0.0, coef0: 0.0 } };
            Case { model: "svr".into(), x, y, kernel, c: *pr.pick(&[0.1, 1.0]), tol: 1e-3, epoch: 0, eps, f32m: f32v, queries: vec![], budget: 500_000_000, tape: TapeSpec::prng(tape_seed), kind: "svr-large-features".into(), ctor: (seed % 4) as u8, post: post_of(seed) }
        }
        "svr-f32-resolution" => {
            // single precision with targets so large that tol lies below the resolution of the gradient values
            // (where the unrepaired SMO loop cycled forever, see known_findings.json)
            let n = pr.usize_in(6, 20);
            let p = pr.usize_in(1, 5);
            let x: Vec<Vec<f64>> = (0..n).map(|_| (0..p).map(|_| 0.3 * r.range(-1.0, 1.0)).collect()).collect();
            let yoff = *pr.pick(&[1000.0, -1000.0, 10_000.0, 100_000.0]);
            let y: Vec<f64> = (0..n).map(|_| yoff + r.range(-1.5, 1.5)).collect();
            let kernel = if pr.chance(0.7) { KSpec { kind: "rbf".into(), gamma: *pr.pick(&[0.5, 1.0]), degree: 0.0, coef0: 0.0 } } else { KSpec { kind: "linear".into(), gamma: 0.0, degree: 0.0, coef0: 0.0 } };
            Case { model: "svr".into(), x, y, kernel, c: *pr.pick(&[10.0, 100.0]), tol: *pr.pick(&[1e-3, 1e-4]), epoch: 0, eps: *pr.pick(&[0.0, 0.1]), f32m: true, queries: vec![], budget: 500_000_000, tape: TapeSpec::prng(tape_seed), kind: "svr-f32-resolution".into(), ctor: (seed % 4) as u8, post: post_of(seed) }
        }
        "svr-f32-offcentre" => {
            // single precision, feature columns far from zero relative to their spread (offset 16..256, spread 1) and
            // centred targets that depend steeply on a column: the bias ends up much larger than any target, so the
            // gradients grow from ~|y| to ~|b| during the fit and the floating-point floor of the stopping rule
            // (8 eps |g|) has to follow them
            let n = pr.usize_in(8, 20);
            let off = *pr.pick(&[16.0, 64.0, 64.0, 256.0]);
            let slope = pr.range(10.0, 60.0);
            let x: Vec<Vec<f64>> = (0..n).map(|_| vec![off + r.range(-0.5, 0.5), off + r.range(-0.5, 0.5)]).collect();
            let y: Vec<f64> = x.iter().map(|row| slope * (row[0] - off) + 0.1 * r.range(-1.0, 1.0)).collect();
            let kernel = if pr.chance(0.6) { KSpec { kind: "poly".into(), gamma: 0.5, degree: 2.0, coef0: 1.0 } } else { KSpec { kind: "linear".into(), gamma: 0.0, degree: 0.0, coef0: 0.0 } };
            // C = 100 only beyond the quick tier's 300 runs: some of those fits wander for 1e8 updates before they settle
            let c = if index >= 300 { *pr.pick(&[1.0, 10.0, 100.0]) } else { *pr.pick(&[1.0, 10.0]) };
            Case { model: "svr".into(), x, y, kernel, c, tol: *pr.pick(&[1e-4, 1e-3]), epoch: 0, eps: 0.05, f32m: true, queries: vec![], budget: 2_000_000_000, tape: TapeSpec::prng(tape_seed), kind: "svr-f32-offcentre".into(), ctor: (seed % 4) as u8, post: post_of(seed) }
        }
        "svr-resonant" => {
            // parameters tuned to the data. SMO moves coefficients to the unclipped optimum of a pair,
            //     L(a,b) = (|y_a - y_b| - 2 eps) / (K_aa + K_bb - 2 K_ab),
            // and clips at 0 and C. The interesting instants are those where a landing value meets a bound: C just
            // above, just below or exactly at L (by 2^-j of its size, j = 20..52), and targets moved off a lattice by
            // the same kind of amount (a step that would return a coefficient to exactly zero leaves ~1e-12 behind).
            // Independently drawn C and data meet these with probability ~1e-12 per step.
            let n = pr.usize_in(3, 8);
            let p = pr.usize_in(1, 2);
            let lattice = pr.chance(0.75);
            let mut x: Vec<Vec<f64>> = vec![];
            while x.len() < n {
                let row: Vec<f64> = (0..p).map(|_| if lattice { 0.5 * r.below(9) as f64 } else { r.range(0.0, 4.0) }).collect();
                if !x.contains(&row) {
                    x.push(row);
                }
            }
            let mut y: Vec<f64> = (0..n).map(|_| if lattice { 0.25 * (r.below(17) as f64 - 8.0) } else { r.range(-2.0, 2.0) }).collect();
            let eps = if lattice { *pr.pick(&[0.0, 0.125, 0.25, 0.5]) } else { pr.range(0.0, 0.5) };
            let kernel = if pr.chance(0.7) { KSpec { kind: "linear".into(), gamma: 0.0, degree: 0.0, coef0: 0.0 } } else { gen_kernel(&mut pr, true, true) };
            let grid = *pr.pick(&[0.125, 0.25, 0.5, 1.0, 2.0]);
            let mut base = grid;
            if pr.chance(0.7) {
                let a = pr.below(n as u64) as usize;
                let b = (a + 1 + pr.below(n as u64 - 1) as usize) % n;
                let curv = kref(&kernel, &x[a], &x[a]) + kref(&kernel, &x[b], &x[b]) - 2.0 * kref(&kernel, &x[a], &x[b]);
                let l = ((y[a] - y[b]).abs() - 2.0 * eps) / curv;
                if l.is_finite() && l >= 0.02 && l <= 4.0 {
                    base = l;
                }
            }
            let j = pr.usize_in(20, 52) as i32;
            let c = match pr.below(4) {
                0 => base,
                1 => base * (1.0 - (2.0f64).powi(-j)),
                _ => base * (1.0 + (2.0f64).powi(-j)),
            };
            if pr.chance(0.4) {
                let at = pr.below(n as u64) as usize;
                let jj = pr.usize_in(30, 52) as i32;
                let d = (2.0f64).powi(-jj) * (1.0 + 7.0 * pr.f64());
                y[at] += if pr.chance(0.5) { d } else { -d };
            }
            let nq = pr.usize_in(0, 2);
            let queries = (0..nq).map(|_| (0..p).map(|_| r.range(0.0, 4.0)).collect()).collect();
            Case { model: "svr".into(), x, y, kernel, c, tol: *pr.pick(&[1e-2, 1e-3]), epoch: 0, eps, f32m: false, queries, budget: 500_000_000, tape: TapeSpec::prng(tape_seed), kind: "svr-resonant".into(), ctor: (seed % 4) as u8, post: post_of(seed) }
        }
        "svr-marathon" => {
            // converging fits that need 1e6..1e8 SMO updates: tiny n (each update is cheap), one feature of magnitude
            // 300..1000 under the linear kernel (curvature 1e5..1e6), C chosen so that C * scale^2 (the number of
            // updates a coefficient needs to reach its bound) is 5e6..1.5e7, targets that cannot be fitted
            // every third run: badly scaled features instead (two features of scale s : 1, targets an exact linear
            // function of the small one, optimum strictly inside the box): SMO zig-zags for about 3 s^2 updates of
            // real progress
            if index % 3 == 2 {
                let n = pr.usize_in(4, 5);
                let s2 = if index >= 216 { logu(&mut pr, 8e3, 2e4) } else if index >= 12 { logu(&mut pr, 2e3, 5e3) } else { logu(&mut pr, 2e3, 2.8e3) };
                let b: Vec<f64> = (0..n).map(|_| r.range(-1.5, 1.5)).collect();
                let x: Vec<Vec<f64>> = (0..n).map(|i| vec![s2 * r.range(-2.0, 2.0), b[i]]).collect();
                let y: Vec<f64> = b.iter().map(|v| 2.0 * v).collect();
                return Case { model: "svr".into(), x, y, kernel: KSpec { kind: "linear".into(), gamma: 0.0, degree: 0.0, coef0: 0.0 }, c: 100.0, tol: 1e-4, epoch: 0, eps: 0.0, f32m: false, queries: vec![], budget: 100_000_000_000, tape: TapeSpec::prng(tape_seed), kind: "svr-marathon".into(), ctor: (seed % 4) as u8, post: post_of(seed) };
            }
            let n = pr.usize_in(4, 8);
            let scale = logu(&mut pr, 300.0, 1000.0);
            // the last 24 runs of the thorough tier go further: 3e7..1e8 (1e8..several 1e9 updates, minutes per fit)
            let u = if index >= 216 { logu(&mut pr, 3e7, 1e8) } else if index >= 12 { logu(&mut pr, 5e6, 1.5e7) } else { logu(&mut pr, 4e6, 8e6) };
            let c = (u / (scale * scale)).min(100.0).max(0.1);
            let x: Vec<Vec<f64>> = (0..n).map(|_| vec![scale * r.range(-1.0, 1.0)]).collect();
            let y: Vec<f64> = (0..n).map(|_| r.range(-1.5, 1.5)).collect();
            Case { model: "svr".into(), x, y, kernel: KSpec { kind: "linear".into(), gamma: 0.0, degree: 0.0, coef0: 0.0 }, c, tol: 1e-3, epoch: 0, eps: *pr.pick(&[0.0, 0.1]), f32m: false, queries: vec![], budget: 100_000_000_000, tape: TapeSpec::prng(tape_seed), kind: "svr-marathon".into(), ctor: (seed % 4) as u8, post: post_of(seed) }
        }
        "svr" | "svr-f32" => {
            // the upper half of the size domain (41..80 rows) under the RBF kernel with C <= 1, where SMO stays fast
            let big_n = Xo::fork(seed, "svr-big-n").chance(0.12);
            let n = if big_n { Xo::fork(seed, "svr-big-n-size").usize_in(41, 80) } else { pr.usize_in(4, 40) };
            let p = pr.usize_in(1, 5);
            let scale = *pr.pick(&[0.3, 1.0, 2.0]);
            let x: Vec<Vec<f64>> = (0..n).map(|_| (0..p).map(|_| scale * r.range(-1.0, 1.0)).collect()).collect();
            let coef: Vec<f64> = (0..p).map(|_| r.range(-2.0, 2.0)).collect();
            let nonlin = pr.chance(0.5);
            let noise = *pr.pick(&[0.0, 0.05, 0.3]);
            let yoff = *pr.pick(&[0.0, 0.0, 0.0, 10.0, -100.0, 1000.0]);
            let y: Vec<f64> = x.iter().map(|row| {
                let lin: f64 = row.iter().zip(&coef).map(|(a, b)| a * b).sum();
                yoff + (if nonlin { lin.sin() * 2.0 } else { lin }) + noise * r.gaussish()
            }).collect();
            let mut y = y;
            if pr.chance(0.15) {
                // one outlier target far from the bulk (it ends up as a bounded support vector)
                let at = pr.below(n as u64) as usize;
                y[at] = *pr.pick(&[500.0, -5000.0, 5000.0, 250_000.0]);
            }
            let mut kernel = gen_kernel(&mut pr, true, true);
            if big_n {
                kernel = KSpec { kind: "rbf".into(), gamma: *Xo::fork(seed, "svr-big-n-gamma").pick(&[0.1, 0.5, 1.0, 2.0]), degree: 0.0, coef0: 0.0 };
            }
            let nq = pr.usize_in(0, 5);
            let queries = (0..nq).map(|_| (0..p).map(|_| scale * r.range(-1.5, 1.5)).collect()).collect();
            // keep to the region where SMO converges quickly (slow convergence is not a violation and
            // must never be mistaken for one): RBF with any C; linear / polynomial with C = 10 only at tol = 1e-2
            let mut c = if kernel.kind == "rbf" { *pr.pick(&[0.1, 1.0, 10.0, 100.0]) } else { *pr.pick(&[0.1, 1.0, 10.0]) };
            let mut tol = *pr.pick(&[1e-2, 1e-3, 1e-4]);
            if pr.chance(0.5) {
                // off the grid (kept inside the fast-converging region by the clamps below)
                c = logu(&mut pr, 0.1, c);
                tol = logu(&mut pr, tol, 1e-2);
            }
            if kernel.kind != "rbf" && c > 1.0 && tol < 1e-2 {
                c = 1.0;
            }
            if big_n && c > 1.0 {
                c = 1.0;
            }
            let tol = if kernel.kind == "poly" && tol < 1e-3 { 1e-3 } else { tol };
            let budget = 500_000_000;
            Case { model: "svr".into(), x, y, kernel, c, tol, epoch: 0, eps: if pr.chance(0.5) { *pr.pick(&[0.0, 0.05, 0.1, 0.5]) } else { pr.range(0.0, 0.5) }, f32m, queries, budget, tape: TapeSpec::prng(tape_seed), kind: "svr".into(), ctor: (seed % 4) as u8, post: post_of(seed) }
        }
        _ => {
            // SVC batches
            let n = if pr.chance(0.4) { pr.usize_in(4, 12) } else { pr.usize_in(4, 80) };
            let p = pr.usize_in(1, 5);
            let (mut x, y, mut dkind) = gen_two_class(&mut r, n, p);
            if f32m {
                // keep cubes of squared norms inside single precision (a far row of 1e9 under a cubic kernel is inf)
                for row in x.iter_mut() {
                    for v in row.iter_mut() {
                        if v.abs() > 3.0e3 {
                            *v = 3.0e3 * v.signum();
                        }
                    }
                }
            }
            let kernel = gen_kernel(&mut pr, false, false);
            // translation-invariant kernel: the data may sit far from the origin (years, prices) without
            // changing the optimisation problem — the model must still equal its closed-form expansion
            if kernel.kind == "rbf" && pr.chance(0.3) {
                let off = *pr.pick(&[100.0, 1000.0, 2000.0]);
                for row in x.iter_mut() {
                    for v in row.iter_mut() {
                        *v += off;
                    }
                }
                dkind.push_str("+offset");
            }
            let c = if pr.chance(0.5) { *pr.pick(&[0.1, 1.0, 10.0, 100.0]) } else { logu(&mut pr, 0.1, 100.0) };
            let tol = if pr.chance(0.5) { *pr.pick(&[1e-2, 1e-3, 1e-4]) } else { logu(&mut pr, 1e-4, 1e-2) };
            let far_query = Xo::fork(seed, "far-query").chance(0.05);
            let epoch = pr.usize_in(1, 4);
            let nq = pr.usize_in(0, 6);
            let s = x.iter().flatten().fold(0.0f64, |m, v| m.max(v.abs())).max(0.1);
            let mut queries: Vec<Vec<f64>> = (0..nq).map(|_| (0..p).map(|_| s * pr.range(-1.5, 1.5)).collect()).collect();
            if far_query {
                // a query so far out that a polynomial expansion overflows (terms of both signs: inf - inf = NaN)
                let big = if f32m { 3.0e12 } else { 1.0e110 };
                let mut fq = Xo::fork(seed, "far-query-row");
                queries.push((0..p).map(|_| big * fq.range(-1.0, 1.0)).collect());
            }
            // the polynomial degree is a real number: fractional powers need a non-negative base, so such runs live in
            // the non-negative orthant (rows and queries folded by |.|, coef0 >= 0)
            let mut kernel = kernel;
            let mut fd = Xo::fork(seed, "fractional-degree");
            if kernel.kind == "poly" && fd.chance(0.12) {
                // larger whole-number degrees, kept where kernel values stay below ~1e6: gamma is chosen so that the base
                // gamma * x.y + coef0 stays within +-(1e6)^(1/d). (With values of 1e17 the trainer's inner loop - "until the
                // gradient gap is below 1000" - needs 1e8 and more passes: slow, not wrong, and never to be judged by a budget;
                // the first version of this workload ran into the 4e9 fallback budget in 4 of 93 000 fits.)
                kernel.degree = fd.usize_in(4, 12) as f64;
                let maxdot = x.iter().chain(queries.iter()).map(|r| r.iter().map(|v| v * v).sum::<f64>()).fold(1e-9f64, f64::max);
                let base_max = (1.0e6f64).powf(1.0 / kernel.degree);
                kernel.coef0 = fd.range(0.0, 1.0);
                kernel.gamma = (base_max - kernel.coef0) / maxdot;
                dkind.push_str("+high-degree");
            } else if kernel.kind == "poly" && fd.chance(0.2) {
                kernel.degree = if fd.chance(0.7) { *fd.pick(&[0.5, 1.5, 2.5]) } else { fd.range(0.2, 3.8) };
                kernel.coef0 = kernel.coef0.abs();
                for row in x.iter_mut().chain(queries.iter_mut()) {
                    for v in row.iter_mut() {
                        *v = v.abs();
                    }
                }
                dkind.push_str("+fractional-degree");
            }
            let mut tape = TapeSpec::prng(tape_seed);
            let mut kind = format!("{}/prng", dkind);
            match batch {
                "svc-prng" | "svc-f32" => {}
                "svc-extreme" => {
                    tape.extreme_pm = *pr.pick(&[50u32, 200, 500, 1000]);
                    kind = format!("{}/extreme", dkind);
                }
                "svc-forced" => {
                    // adversarial orders for every pass: identity, reverse, all of one class first, rotations
                    let lo = y.iter().cloned().fold(f64::INFINITY, f64::min);
                    let mut words = vec![];
                    for _pass in 0..(1 + epoch) {
                        let mut perm: Vec<usize> = (0..n).collect();
                        match pr.below(6) {
                            0 => {}
                            1 => perm.reverse(),
                            2 => perm.sort_by_key(|i| (y[*i] != lo) as u8), // negatives first
                            3 => perm.sort_by_key(|i| (y[*i] == lo) as u8), // positives first
                            4 => perm.rotate_left(pr.below(n as u64) as usize),
                            _ => pr.shuffle(&mut perm),
                        }
                        words.extend(words_for_permutation(&perm));
                    }
                    tape.prefix = words;
                    kind = format!("{}/forced-permutation", dkind);
                }
                _ => panic!("unknown batch {}", batch),
            }
            Case { model: "svc".into(), x, y, kernel, c, tol, epoch, eps: 0.0, f32m, queries, budget: DEFAULT_BUDGET, tape, kind, ctor: (seed % 4) as u8, post: post_of(seed) }
        }
    }
}

impl Property for C10 {
    type Case = Case;
    fn id(&self) -> &'static str {
        "C10"
    }
    fn batches(&self, tier: Tier) -> Vec<Batch> {
        let q = tier == Tier::Quick;
        vec![
            Batch { name: "svc-exhaustive-small", count: exhaustive_small().len() as u64, simulated: true, exhaustive: true, note: "n=3,4,5: every (initialize order, epoch order) pair = (n!)^2 schedules; 3 data sets per n (separable, overlapping, conflicting duplicate); epoch=1" },
            Batch { name: "svc-prng", count: if q { 48_000 } else { 3_000_000 }, simulated: true, exhaustive: false, note: "visiting orders from the seeded PRNG tape; four kernels; C 0.1..100; 1..4 epochs" },
            Batch { name: "svc-extreme", count: if q { 16_000 } else { 800_000 }, simulated: true, exhaustive: false, note: "extreme words injected at random draw sites of the shuffles" },
            Batch { name: "svc-forced", count: if q { 16_000 } else { 800_000 }, simulated: true, exhaustive: false, note: "forced identity / reverse / one-class-first / rotated orders for every pass" },
            Batch { name: "svc-f32", count: if q { 8_000 } else { 400_000 }, simulated: true, exhaustive: false, note: "single precision, tolerances scaled" },
            Batch { name: "svr", count: if q { 12_000 } else { 600_000 }, simulated: false, exhaustive: false, note: "schedule-free ride-along: SVR draws nothing; linear / RBF / polynomial degree<=2, C<=10, n<=40; termination judged by state-cycle detection over the tick hook's state digests (step budget only as fallback)" },
            Batch { name: "svr-resonant", count: if q { 20_000 } else { 1_000_000 }, simulated: false, exhaustive: false, note: "schedule-free: tiny lattice / continuous fits whose C is tuned to the data — equal to, or 2^-j (j 20..52) above or below, the unclipped pair optimum of two training rows — and whose targets sit 2^-j off the lattice: the instants where an SMO step lands on a bound" },
            Batch { name: "svr-hard", count: if q { 48 } else { 1_500 }, simulated: false, exhaustive: false, note: "schedule-free: the slowly converging corner (C = 100, linear / quadratic / RBF kernels on features in [-3,3], n 20..60, tol 1e-3) with a 4e9-iteration fallback budget; few runs because each takes up to seconds" },
            Batch { name: "svr-hard-tight", count: if q { 12 } else { 600 }, simulated: false, exhaustive: false, note: "same corner at tol 1e-4, quadratic kernel, low noise (up to ~2e7 iterations per fit)" },
            Batch { name: "svr-marathon", count: if q { 12 } else { 240 }, simulated: false, exhaustive: false, note: "schedule-free: converging fits that need 1e6..1e8 SMO updates (4..8 rows, one feature of magnitude 300..1000, linear kernel, C * scale^2 = 5e6..1.5e7; the last 24 runs of the thorough tier 3e7..1e8, i.e. up to several 1e9 updates): optimality must hold at termination however long it takes" },
            Batch { name: "svr-large-features", count: if q { 1_500 } else { 60_000 }, simulated: false, exhaustive: false, note: "schedule-free: large kernel curvature (linear kernel on features of magnitude 30..300, quadratic on ~10), noise below epsilon, f32 and f64" },
            Batch { name: "svr-f32-resolution", count: if q { 1_500 } else { 60_000 }, simulated: false, exhaustive: false, note: "schedule-free: f32 fits whose tolerance lies below the floating-point resolution of the targets (|y| 1e3..1e5, tol 1e-3..1e-4) — the region of the repaired livelock" },
            Batch { name: "svr-f32-offcentre", count: if q { 300 } else { 20_000 }, simulated: false, exhaustive: false, note: "schedule-free, single precision: feature columns offset by 16..256 with spread 1, centred targets with slope 10..60 (|b| >> |y|): the gradients grow by orders of magnitude during the fit" },
            Batch { name: "svr-f32", count: if q { 1_000 } else { 100_000 }, simulated: false, exhaustive: false, note: "schedule-free, single precision" },
            Batch { name: "many-rows-huge", count: if q { 3 } else { 12 }, simulated: true, exhaustive: false, note: "one predict call with 3e5..1.1e6 rows (thorough: up to 4.2e6): block sizes of 2^18..2^22 elements; a cap beyond the largest call made here stays invisible" },
            Batch { name: "kernels", count: if q { 6_000 } else { 600_000 }, simulated: false, exhaustive: false, note: "schedule-free: closed forms, symmetry, PSD of linear/RBF Gram matrices" },
            Batch { name: "kernels-f32", count: if q { 2_000 } else { 200_000 }, simulated: false, exhaustive: false, note: "schedule-free, single precision" },
        ]
    }
    fn gen(&self, batch: &str, index: u64, seed: u64) -> Case {
        if batch == "many-rows-huge" {
            let mut c = gen_case(if index % 3 == 2 { "svr" } else { "svc-prng" }, index, seed);
            c.post.many = [300_000usize, 600_000, 1_100_000, 4_200_000][(index % 4) as usize];
            if c.post.many > 2_000_000 && c.x.len() > 20 {
                c.x.truncate(20);
                c.y.truncate(20);
                if c.model == "svc" && c.y.iter().all(|v| *v == c.y[0]) {
                    c.y[0] = if c.y[0] == 1.0 { -1.0 } else { c.y[0] + 1.0 };
                }
            }
            c.kind = format!("{}+many-rows-huge", c.kind);
            return c;
        }
        gen_case(batch, index, seed)
    }
    fn run(&self, case: &Case) -> Report {
        let r = guarded(|| {
            let mut rep = Report::default();
            if case.f32m {
                self.dispatch::<f32>(case, &mut rep)
            } else {
                self.dispatch::<f64>(case, &mut rep)
            }
            rep
        });
        match r {
            Ok(rep) => rep,
            Err(msg) => {
                rand::sim::uninstall();
                set_tick_observer(None);
                let mut rep = Report::default();
                rep.fail("harness-panic", "c10", format!("harness panicked: {}", msg));
                rep
            }
        }
    }
    fn shrink(&self, case: &Case) -> Vec<Case> {
        let mut out = vec![];
        let n = case.x.len();
        let p = case.x[0].len();
        let valid = |c: &Case| -> bool {
            if c.x.is_empty() || c.x[0].is_empty() {
                return false;
            }
            match c.model.as_str() {
                "svc" => {
                    let mut l = c.y.clone();
                    l.sort_by(|a, b| a.partial_cmp(b).unwrap());
                    l.dedup();
                    l.len() == 2 && c.x.len() >= 2 && c.epoch >= 1
                }
                "svr" => c.x.len() >= 2,
                _ => c.x.len() >= 2,
            }
        };
        let mut push = |c: Case| {
            if c != *case && valid(&c) {
                out.push(c);
            }
        };
        if n > 2 {
            for (a, b) in [(0, n / 2), (n / 2, n)] {
                let mut c = case.clone();
                c.x = case.x[a..b].to_vec();
                if !c.y.is_empty() {
                    c.y = case.y[a..b].to_vec();
                }
                c.tape.prefix.clear();
                push(c);
            }
            for i in (0..n).rev().take(40) {
                let mut c = case.clone();
                c.x.remove(i);
                if !c.y.is_empty() {
                    c.y.remove(i);
                }
                c.tape.prefix.clear();
                push(c);
            }
        }
        if !case.queries.is_empty() {
            let mut c = case.clone();
            c.queries.clear();
            push(c);
        }
        if case.epoch > 1 {
            let mut c = case.clone();
            c.epoch = 1;
            push(c);
        }
        if p > 1 {
            for j in 0..p {
                let mut c = case.clone();
                for r in c.x.iter_mut().chain(c.queries.iter_mut()) {
                    r.remove(j);
                }
                push(c);
            }
        }
        if case.kernel.kind != "linear" {
            let mut c = case.clone();
            c.kernel = KSpec { kind: "linear".into(), gamma: 0.0, degree: 0.0, coef0: 0.0 };
            push(c);
        }
        if case.c != 1.0 {
            let mut c = case.clone();
            c.c = 1.0;
            push(c);
        }
        {
            let mut c = case.clone();
            for r in c.x.iter_mut() {
                for v in r.iter_mut() {
                    *v = (*v * 4.0).round() / 4.0;
                }
            }
            push(c);
        }
        if case.model == "svc" {
            let mut l = case.y.clone();
            l.sort_by(|a, b| a.partial_cmp(b).unwrap());
            l.dedup();
            if l.len() == 2 && (l[0] != -1.0 || l[1] != 1.0) {
                let mut c = case.clone();
                c.y = case.y.iter().map(|v| if *v == l[0] { -1.0 } else { 1.0 }).collect();
                push(c);
            }
        }
        if case.tape.extreme_pm > 0 {
            let mut c = case.clone();
            c.tape.extreme_pm = 0;
            push(c);
        }
        for i in 0..case.tape.prefix.len().min(48) {
            if case.tape.prefix[i].1 != 0 {
                let mut c = case.clone();
                c.tape.prefix[i].1 = 0;
                push(c);
            }
        }
        out
    }
    fn literalize(&self, case: &Case, report: &Report) -> Case {
        let mut c = case.clone();
        if case.model == "svc" {
            c.tape = TapeSpec::literal(&report.tape, case.tape.seed);
        }
        c
    }
    fn sample(&self, case: &Case, report: &Report) -> Value {
        json!({
            "model": case.model, "kind": case.kind, "n": case.x.len(), "p": case.x[0].len(), "kernel": case.kernel, "C": case.c, "tol": case.tol,
            "epoch": case.epoch, "eps": case.eps, "f32": case.f32m,
            "first_rows": case.x.iter().take(3).collect::<Vec<_>>(), "first_targets": case.y.iter().take(6).collect::<Vec<_>>(),
            "tape_seed": case.tape.seed, "tape_prefix_words": case.tape.prefix.len(), "extreme_per_mille": case.tape.extreme_pm,
            "words_served": report.tape.len(), "first_words_served": report.tape.iter().take(6).collect::<Vec<_>>(),
            "kernel_evals": report.counters.get("steps.kernel_evals"), "smo_ticks": report.counters.get("steps.smo_ticks"),
            "log_digest": format!("{:016x}", report.log_digest),
            "violation": report.violation.as_ref().map(|v| v.class.clone()),
        })
    }
    fn rule(&self) -> String {
        "cases: (explicit two-class training set n 4..80 x p 1..5 — separable / overlapping / exact duplicates with conflicting labels, label pair, kernel, C, tol, epochs, tape policy) from case_seed; \
         the tape decides the 1+epoch permutations SVC's optimizer visits the rows in. distinct_nontrivial = number of distinct decoded (n, permutation tuple) among SVC fits that returned a model with at least \
         one support vector (permutations decoded by running rand's own shuffle over the recorded words). SVR / kernel runs are schedule-free and never count".into()
    }
    fn state_measure(&self) -> String {
        "distinct final support-vector index sets (SVC) / sign patterns of the SVR weight vector".into()
    }
    fn assumptions(&self) -> Vec<String> {
        vec![
            "the only nondeterminism SVC::fit consumes is rand::thread_rng() inside Optimizer::permutate, served by the simulator through the patched rand 0.8.8 copy; the kernel cache is a keyed HashMap lookup and its retain() predicate is order independent".into(),
            "the Counting<K> wrapper delegates to the real kernels; kernel evaluations and the cfg(smartcore_verif) tick in the SMO loops are the logical clock. Non-termination is decided by state-cycle detection (Brent) over the optimizer-state digests the tick hook delivers: the loops are deterministic in that state, so a repeated state proves the loop never exits. A step budget remains only as a fallback for non-repeating livelocks and is far beyond anything observed (4e9 kernel evaluations / ticks for SVC and the svr-hard batch, 5e8 SMO iterations for the regular SVR batches; observed maxima are reported under measured_maxima: ~2e8 kernel evaluations for one f32 cubic-kernel fit in 5e6, 5.9e5 / 2.2e7 SVR iterations)".into(),
            "closed-form kernels and the expansion b + sum w_i K(sv_i, x) are computed independently in the harness from the model's serde image".into(),
            "tolerances: box 1e-12*C (f32 1e-5); |sum w| <= 4*eps*(solver updates + rows + 8)*C, i.e. two roundings per update judged with 4x; expansion 1e-9 relative (f32 2e-3); SVR optimality slack = tol + 1e-9*scale (the stopping rule guarantees tol/2), a coefficient counts as 'at the bound' only within 4 ulp of C, residual signs are checked against coefficient signs; the label rule is also probed on points bisected onto the decision boundary".into(),
            "SVR workload restricted to the region where SMO converges quickly (n <= 40; RBF with C <= 100; linear and polynomial degree <= 2 with C <= 1, or C = 10 at tol = 1e-2; polynomial only with tol >= 1e-3); slow convergence elsewhere is not judged; the svr-hard, svr-hard-tight and svr-marathon batches leave that region deliberately with fits that are known to converge (up to ~1e8 updates in the quick tier, several 1e9 in the thorough tier)".into(),
            "sampling, not enumeration, beyond n = 5: a clean batch is evidence, not proof".into(),
        ]
    }
    fn components(&self) -> Value {
        json!({
            "real": ["smartcore SVC (Optimizer: initialize/process/reprocess/smo/clean/finish, Cache), SVC::predict/decision_function", "smartcore SVR (SMO, Cache)", "smartcore Linear/RBF/Polynomial/Sigmoid kernels", "rand 0.8.8 SliceRandom::shuffle", "serde_json (observation of classes/instances/w/b)"],
            "stub": ["ThreadRng word source (simulator tape)", "Counting<K> kernel wrapper (delegates to the real kernel, counts evaluations, enforces the step budget)"]
        })
    }
}
