//! C06 — random forests are seed-reproducible and aggregate their trees faithfully.
//!
//! Simulated: the forest's `seed` (its only RNG) and everything *around* a fit that must not
//! matter — the ambient RNG (seam S1: seeded / extreme / none), the thread, the process (runner's
//! process-hop on `aux_digest`), and what ran before (history pollution). Every run fits twins.

use crate::core::rng::{Digest, Xo};
use crate::core::runner::{guarded, Batch, Property, Report, Tier};
use crate::core::tape::{TapeGuard, TapeSpec};
use serde::{Deserialize, Serialize};
use serde_json::{json, Value};
use smartcore::api::{Predictor, SupervisedEstimator};
use smartcore::cluster::kmeans::{KMeans, KMeansParameters};
use smartcore::ensemble::random_forest_classifier::{RandomForestClassifier, RandomForestClassifierParameters};
use smartcore::ensemble::random_forest_regressor::{RandomForestRegressor, RandomForestRegressorParameters};
use smartcore::linalg::naive::dense_matrix::DenseMatrix;
use smartcore::math::num::RealNumber;
use smartcore::model_selection::{BaseKFold, KFold};
use smartcore::tree::decision_tree_classifier::{DecisionTreeClassifier, SplitCriterion};
use smartcore::tree::decision_tree_regressor::DecisionTreeRegressor;

#[derive(Serialize, Deserialize, Clone, Debug, PartialEq)]
pub struct Params {
    pub n_trees: usize,
    pub m: Option<usize>,
    pub max_depth: Option<u16>,
    pub min_samples_leaf: usize,
    pub min_samples_split: usize,
    pub criterion: String,
    pub keep_samples: bool,
    pub seed: u64,
}

#[derive(Serialize, Deserialize, Clone, Debug, PartialEq)]
pub struct Case {
    /// "clf" | "reg"
    pub task: String,
    pub x: Vec<Vec<f64>>,
    pub y: Vec<f64>,
    pub params: Params,
    pub queries: Vec<Vec<f64>>,
    /// ambient RNG during fit A / fit B: None = nothing installed (real OS-seeded ThreadRng)
    pub ambient_a: Option<TapeSpec>,
    pub ambient_b: Option<TapeSpec>,
    /// other estimators are fitted between the twins (consume ambient words, allocate hash maps)
    pub pollute: bool,
    /// the call sequence issued against each fitted forest: 0 = predict(training rows + queries),
    /// 1 = predict_oob(training rows) (skipped when keep_samples is off), 2 = predict(a matrix of the
    /// training matrix's shape but different content: the training rows in reverse order, shifted),
    /// 3 = predict(single-row matrix), 4 = predict(training rows stacked twice)
    #[serde(default)]
    pub ops: Vec<u8>,
    /// fit the same forest a third time, on the first thread again
    #[serde(default)]
    pub refit_same_thread: bool,
    pub kind: String,
    /// how the parameter struct is built: 0 = struct literal, 1 = builder chain, 2 = builder chain in reverse order
    #[serde(default)]
    pub ctor: u8,
    /// fit and query in single precision (data, labels and queries are f32-representable)
    #[serde(default)]
    pub f32m: bool,
    /// fault plan for the forest's own seeded generator (salt, boundary values per million draws): the same
    /// plan for every twin of the run, so "same seed" still means "same stream" (seam S1b, rand::sim)
    #[serde(default)]
    pub std_fault: Option<(u64, u32)>,
    /// cells of the query rows that hold a non-finite value: (query row, column, 1 = NaN, 2 = +inf, 3 = -inf).
    /// (Kept apart from `queries` because JSON has no spelling for them.) A forest aggregates its trees for every
    /// row, also for one with a missing value in it.
    #[serde(default)]
    pub nonfinite_cells: Vec<(usize, usize, u8)>,
    /// set when one feature column was ordered by the adversarial comparator party (core::adversary): how the
    /// construction against the real index sort ended, and how many comparisons the sort asked for
    #[serde(default)]
    pub sort_adversary: Option<(String, u64)>,
    /// > 0: one more predict call with this many rows (training rows + queries repeated in a scrambled order): code
    /// that works through its rows in blocks (1024, 4096, 65536) meets the block boundaries only in such a call
    #[serde(default)]
    pub many: usize,
    /// 1 = the forest also goes through a bincode round trip, 2 = through serde_json values; the restored forest is
    /// asked predict / predict_oob again: a restored forest is a forest
    #[serde(default)]
    pub roundtrip: u8,
    /// matrix back end: 0 = DenseMatrix, 1 = ndarray (row-major), 2 = ndarray (column-major memory layout), 3 = nalgebra
    #[serde(default)]
    pub backend: u8,
}

/// source row (of training rows + queries) behind every row of the many-row call
fn many_src(case: &Case) -> Vec<usize> {
    let m = case.x.len() + case.queries.len();
    let seed = case.params.seed ^ case.x.len() as u64;
    let stride = 1 + (seed % 7) as usize;
    let off = (seed / 7 % m as u64) as usize;
    (0..case.many).map(|j| (j * stride + off + j / m) % m).collect()
}

/// the query rows with their non-finite cells filled in
fn queries_of(case: &Case) -> Vec<Vec<f64>> {
    let mut q = case.queries.clone();
    for (r, c, kind) in &case.nonfinite_cells {
        if *r < q.len() && *c < q[*r].len() {
            q[*r][*c] = match kind {
                1 => f64::NAN,
                2 => f64::INFINITY,
                _ => f64::NEG_INFINITY,
            };
        }
    }
    q
}

/// installs the seeded-generator fault plan on the current thread for the lifetime of the guard
struct StdPlanGuard(Option<rand::sim::StdFaultPlan>);
impl StdPlanGuard {
    fn install(plan: Option<(u64, u32)>) -> StdPlanGuard {
        StdPlanGuard(rand::sim::set_std_fault_plan(plan.map(|(salt, per_million)| rand::sim::StdFaultPlan { salt, per_million })))
    }
}
impl Drop for StdPlanGuard {
    fn drop(&mut self) {
        rand::sim::set_std_fault_plan(self.0);
    }
}

pub struct C06;

/// a matrix back end the forests can be fitted on and asked through (the clauses do not depend on how rows are stored)
pub trait Mx<T: RealNumber>: smartcore::linalg::Matrix<T> {
    /// layout: 1 = column-major memory layout where the back end has a choice
    fn build(rows: &[Vec<f64>], layout: u8) -> Self;
    fn vec_from(v: &[f64]) -> Self::RowVector;
    fn vec_to64(v: Self::RowVector) -> Vec<f64>;
}
macro_rules! mx {
    ($t:ty) => {
        impl Mx<$t> for DenseMatrix<$t> {
            fn build(rows: &[Vec<f64>], _layout: u8) -> Self {
                mat_t(rows)
            }
            fn vec_from(v: &[f64]) -> Vec<$t> {
                v.iter().map(|x| *x as $t).collect()
            }
            fn vec_to64(v: Vec<$t>) -> Vec<f64> {
                v.iter().map(|x| *x as f64).collect()
            }
        }
        impl Mx<$t> for ndarray::Array2<$t> {
            fn build(rows: &[Vec<f64>], layout: u8) -> Self {
                use ndarray::ShapeBuilder;
                let (n, p) = (rows.len(), rows[0].len());
                if layout == 1 { ndarray::Array2::from_shape_fn((n, p).f(), |(i, j)| rows[i][j] as $t) } else { ndarray::Array2::from_shape_fn((n, p), |(i, j)| rows[i][j] as $t) }
            }
            fn vec_from(v: &[f64]) -> ndarray::Array1<$t> {
                ndarray::Array1::from_shape_fn(v.len(), |i| v[i] as $t)
            }
            fn vec_to64(v: ndarray::Array1<$t>) -> Vec<f64> {
                v.iter().map(|x| *x as f64).collect()
            }
        }
        impl Mx<$t> for nalgebra::DMatrix<$t> {
            fn build(rows: &[Vec<f64>], _layout: u8) -> Self {
                nalgebra::DMatrix::from_fn(rows.len(), rows[0].len(), |i, j| rows[i][j] as $t)
            }
            fn vec_from(v: &[f64]) -> nalgebra::RowDVector<$t> {
                nalgebra::RowDVector::from_fn(v.len(), |_, i| v[i] as $t)
            }
            fn vec_to64(v: nalgebra::RowDVector<$t>) -> Vec<f64> {
                v.iter().map(|x| *x as f64).collect()
            }
        }
    };
}
mx!(f32);
mx!(f64);

fn mat_t<T: RealNumber>(rows: &[Vec<f64>]) -> DenseMatrix<T> {
    let n = rows.len();
    let p = rows[0].len();
    let v: Vec<T> = rows.iter().flatten().map(|x| T::from_f64(*x).unwrap()).collect();
    DenseMatrix::from_array(n, p, &v)
}

fn to64<T: RealNumber>(v: Vec<T>) -> Vec<f64> {
    v.iter().map(|x| x.to_f64().unwrap_or(f64::NAN)).collect()
}

fn mat(rows: &[Vec<f64>]) -> DenseMatrix<f64> {
    let n = rows.len();
    let p = rows[0].len();
    let v: Vec<f64> = rows.iter().flatten().copied().collect();
    DenseMatrix::from_array(n, p, &v)
}

fn criterion_of(s: &str) -> SplitCriterion {
    match s {
        "entropy" => SplitCriterion::Entropy,
        "class-error" => SplitCriterion::ClassificationError,
        _ => SplitCriterion::Gini,
    }
}

/// the element types the checks run at; the restore step is written against the concrete types (see c12.rs)
pub trait Elem: RealNumber + Serialize + serde::de::DeserializeOwned + Send + Sync + 'static {
    fn restore_clf(bytes: &[u8], value: &Value, how: u8) -> Result<RandomForestClassifier<Self>, String>;
    fn restore_reg(bytes: &[u8], value: &Value, how: u8) -> Result<RandomForestRegressor<Self>, String>;
}
macro_rules! elem {
    ($t:ty) => {
        impl Elem for $t {
            fn restore_clf(bytes: &[u8], value: &Value, how: u8) -> Result<RandomForestClassifier<$t>, String> {
                if how == 1 { bincode::deserialize(bytes).map_err(|e| e.to_string()) } else { serde_json::from_value(value.clone()).map_err(|e| e.to_string()) }
            }
            fn restore_reg(bytes: &[u8], value: &Value, how: u8) -> Result<RandomForestRegressor<$t>, String> {
                if how == 1 { bincode::deserialize(bytes).map_err(|e| e.to_string()) } else { serde_json::from_value(value.clone()).map_err(|e| e.to_string()) }
            }
        }
    };
}
elem!(f32);
elem!(f64);

/// everything one fit produces, in comparable form
#[derive(Clone, Debug, PartialEq)]
struct FitOut {
    bytes: Vec<u8>,
    pred: Vec<f64>,
    oob: Option<Vec<f64>>,
    alt: Option<Vec<f64>>,
    single: Option<Vec<f64>>,
    tall: Option<Vec<f64>>,
    /// predict on the standard rows in reverse order (op 5)
    rev: Option<Vec<f64>>,
    /// predict on the many-row matrix
    many: Option<Vec<f64>>,
    /// predict(training rows + queries) / predict_oob(training rows) of the restored forest
    restored: Option<(Vec<f64>, Option<Vec<f64>>)>,
    restore_err: Option<String>,
    /// in-run history: the per-row sample counts every member tree was grown from, in the order the trees were fitted
    /// (probe at the start of every tree fit)
    bags: Vec<Vec<usize>>,
    repeat_mismatch: Option<String>,
    calls: u64,
    words_consumed: Option<usize>,
    /// boundary values the fault plan substituted into the forest's seeded generator during this fit
    draw_faults: u64,
    /// rows that sit exactly on (and one float to either side of) split thresholds of the fitted trees, and
    /// the forest's predictions for them
    thr: Option<(Vec<Vec<f64>>, Vec<f64>)>,
    value: Value,
    err: Option<String>,
}

fn fit_once(case: &Case, ambient: &Option<TapeSpec>) -> (FitOut, Option<Box<dyn std::any::Any + Send>>) {
    macro_rules! go {
        ($t:ty) => {
            match case.backend {
                1 => fit_once_t::<$t, ndarray::Array2<$t>>(case, ambient, 0),
                2 => fit_once_t::<$t, ndarray::Array2<$t>>(case, ambient, 1),
                3 => fit_once_t::<$t, nalgebra::DMatrix<$t>>(case, ambient, 0),
                _ => fit_once_t::<$t, DenseMatrix<$t>>(case, ambient, 0),
            }
        };
    }
    if case.f32m {
        go!(f32)
    } else {
        go!(f64)
    }
}

fn fit_once_t<T: Elem, M: Mx<T>>(case: &Case, ambient: &Option<TapeSpec>, layout: u8) -> (FitOut, Option<Box<dyn std::any::Any + Send>>) {
    let x: M = M::build(&case.x, layout);
    let yt: M::RowVector = M::vec_from(&case.y);
    let mut q = case.x.clone();
    q.extend(queries_of(case));
    let qm: M = M::build(&q, layout);
    let guard = ambient.as_ref().map(TapeGuard::install);
    let _plan = StdPlanGuard::install(case.std_fault);
    rand::sim::take_std_faults_fired();
    let p = &case.params;
    let mut out = FitOut { bytes: vec![], pred: vec![], oob: None, alt: None, single: None, tall: None, rev: None, many: None, restored: None, restore_err: None, bags: vec![], repeat_mismatch: None, calls: 0, words_consumed: None, draw_faults: 0, thr: None, value: Value::Null, err: None };
    let mut model_box: Option<Box<dyn std::any::Any + Send>> = None;
    let bag_log: std::rc::Rc<std::cell::RefCell<Vec<Vec<usize>>>> = Default::default();
    {
        let l = bag_log.clone();
        smartcore::verif::set_tree_fit_observer(Some(Box::new(move |s: &[usize]| l.borrow_mut().push(s.to_vec()))));
    }
    struct ObsGuard;
    impl Drop for ObsGuard {
        fn drop(&mut self) {
            smartcore::verif::set_tree_fit_observer(None);
        }
    }
    let _og = ObsGuard;
    if case.task == "clf" {
        let params = match case.ctor % 3 {
            0 => RandomForestClassifierParameters {
                criterion: criterion_of(&p.criterion),
                max_depth: p.max_depth,
                min_samples_leaf: p.min_samples_leaf,
                min_samples_split: p.min_samples_split,
                n_trees: p.n_trees as u16,
                m: p.m,
                keep_samples: p.keep_samples,
                seed: p.seed,
            },
            1 => {
                let mut q = RandomForestClassifierParameters::default()
                    .with_criterion(criterion_of(&p.criterion))
                    .with_min_samples_leaf(p.min_samples_leaf)
                    .with_min_samples_split(p.min_samples_split)
                    .with_n_trees(p.n_trees as u16)
                    .with_keep_samples(p.keep_samples)
                    .with_seed(p.seed);
                if let Some(d) = p.max_depth {
                    q = q.with_max_depth(d);
                }
                if let Some(m) = p.m {
                    q = q.with_m(m);
                }
                q
            }
            _ => {
                let mut q = RandomForestClassifierParameters::default();
                if let Some(m) = p.m {
                    q = q.with_m(m);
                }
                if let Some(d) = p.max_depth {
                    q = q.with_max_depth(d);
                }
                q.with_seed(p.seed)
                    .with_keep_samples(p.keep_samples)
                    .with_n_trees(p.n_trees as u16)
                    .with_min_samples_split(p.min_samples_split)
                    .with_min_samples_leaf(p.min_samples_leaf)
                    .with_criterion(criterion_of(&p.criterion))
            }
        };
        let via_trait = case.ctor / 3 == 1;
        // (for odd seeds the value handed over is a clone of the one that was built)
        let params = if case.params.seed % 2 == 1 { params.clone() } else { params };
        match guarded(|| if via_trait { <RandomForestClassifier<T> as SupervisedEstimator<M, M::RowVector, RandomForestClassifierParameters>>::fit(&x, &yt, params) } else { RandomForestClassifier::<T>::fit(&x, &yt, params) }) {
            Err(msg) => out.err = Some(format!("panic: {}", msg)),
            Ok(Err(e)) => out.err = Some(format!("error: {}", e)),
            Ok(Ok(model)) => {
                out.words_consumed = guard.as_ref().map(|g| g.served());
                smartcore::verif::set_tree_fit_observer(None);
                out.bags = bag_log.borrow().clone();
                out.bytes = bincode::serialize(&model).unwrap_or_default();
                out.value = serde_json::to_value(&model).unwrap_or(Value::Null);
                run_ops::<T, M>(case, layout, &mut out, &x, &qm, &|m| if via_trait { Predictor::<M, M::RowVector>::predict(&model, m).map(M::vec_to64) } else { model.predict(m).map(M::vec_to64) }, &|m| model.predict_oob(m).map(M::vec_to64));
                if case.many > 0 && out.err.is_none() {
                    let big: Vec<Vec<f64>> = many_src(case).iter().map(|s| q[*s].clone()).collect();
                    match guarded(|| model.predict(&M::build(&big, layout)).map(M::vec_to64)) {
                        Ok(Ok(v)) => out.many = Some(v),
                        Ok(Err(e)) => out.err = Some(format!("predict on {} rows: error: {}", big.len(), e)),
                        Err(m) => out.err = Some(format!("predict on {} rows: panic: {}", big.len(), m)),
                    }
                }
                if case.roundtrip > 0 && out.err.is_none() {
                    let restored: Result<RandomForestClassifier<T>, String> = T::restore_clf(&out.bytes, &out.value, case.roundtrip);
                    match restored {
                        Err(e) => out.restore_err = Some(e),
                        Ok(m2) => match guarded(|| (m2.predict(&qm).map(M::vec_to64), if case.params.keep_samples { Some(m2.predict_oob(&x).map(M::vec_to64)) } else { None })) {
                            Ok((Ok(pv), ob)) => match ob {
                                Some(Err(e)) => out.restore_err = Some(format!("predict_oob error: {}", e)),
                                Some(Ok(o)) => out.restored = Some((pv, Some(o))),
                                None => out.restored = Some((pv, None)),
                            },
                            Ok((Err(e), _)) => out.restore_err = Some(format!("predict error: {}", e)),
                            Err(m) => out.restore_err = Some(format!("panic: {}", m)),
                        },
                    }
                }
                let tr = threshold_rows(case, &out.value);
                if !tr.is_empty() && out.err.is_none() {
                    if let Ok(Ok(v)) = guarded(|| model.predict(&M::build(&tr, layout)).map(M::vec_to64)) {
                        out.thr = Some((tr, v));
                    }
                }
                model_box = Some(Box::new(model));
            }
        }
    } else {
        let params = match case.ctor % 3 {
            0 => RandomForestRegressorParameters {
                max_depth: p.max_depth,
                min_samples_leaf: p.min_samples_leaf,
                min_samples_split: p.min_samples_split,
                n_trees: p.n_trees,
                m: p.m,
                keep_samples: p.keep_samples,
                seed: p.seed,
            },
            1 => {
                let mut q = RandomForestRegressorParameters::default()
                    .with_min_samples_leaf(p.min_samples_leaf)
                    .with_min_samples_split(p.min_samples_split)
                    .with_n_trees(p.n_trees)
                    .with_keep_samples(p.keep_samples)
                    .with_seed(p.seed);
                if let Some(d) = p.max_depth {
                    q = q.with_max_depth(d);
                }
                if let Some(m) = p.m {
                    q = q.with_m(m);
                }
                q
            }
            _ => {
                let mut q = RandomForestRegressorParameters::default();
                if let Some(m) = p.m {
                    q = q.with_m(m);
                }
                if let Some(d) = p.max_depth {
                    q = q.with_max_depth(d);
                }
                q.with_seed(p.seed)
                    .with_keep_samples(p.keep_samples)
                    .with_n_trees(p.n_trees)
                    .with_min_samples_split(p.min_samples_split)
                    .with_min_samples_leaf(p.min_samples_leaf)
            }
        };
        let via_trait = case.ctor / 3 == 1;
        // (for odd seeds the value handed over is a clone of the one that was built)
        let params = if case.params.seed % 2 == 1 { params.clone() } else { params };
        match guarded(|| if via_trait { <RandomForestRegressor<T> as SupervisedEstimator<M, M::RowVector, RandomForestRegressorParameters>>::fit(&x, &yt, params) } else { RandomForestRegressor::<T>::fit(&x, &yt, params) }) {
            Err(msg) => out.err = Some(format!("panic: {}", msg)),
            Ok(Err(e)) => out.err = Some(format!("error: {}", e)),
            Ok(Ok(model)) => {
                out.words_consumed = guard.as_ref().map(|g| g.served());
                smartcore::verif::set_tree_fit_observer(None);
                out.bags = bag_log.borrow().clone();
                out.bytes = bincode::serialize(&model).unwrap_or_default();
                out.value = serde_json::to_value(&model).unwrap_or(Value::Null);
                run_ops::<T, M>(case, layout, &mut out, &x, &qm, &|m| if via_trait { Predictor::<M, M::RowVector>::predict(&model, m).map(M::vec_to64) } else { model.predict(m).map(M::vec_to64) }, &|m| model.predict_oob(m).map(M::vec_to64));
                if case.many > 0 && out.err.is_none() {
                    let big: Vec<Vec<f64>> = many_src(case).iter().map(|s| q[*s].clone()).collect();
                    match guarded(|| model.predict(&M::build(&big, layout)).map(M::vec_to64)) {
                        Ok(Ok(v)) => out.many = Some(v),
                        Ok(Err(e)) => out.err = Some(format!("predict on {} rows: error: {}", big.len(), e)),
                        Err(m) => out.err = Some(format!("predict on {} rows: panic: {}", big.len(), m)),
                    }
                }
                if case.roundtrip > 0 && out.err.is_none() {
                    let restored: Result<RandomForestRegressor<T>, String> = T::restore_reg(&out.bytes, &out.value, case.roundtrip);
                    match restored {
                        Err(e) => out.restore_err = Some(e),
                        Ok(m2) => match guarded(|| (m2.predict(&qm).map(M::vec_to64), if case.params.keep_samples { Some(m2.predict_oob(&x).map(M::vec_to64)) } else { None })) {
                            Ok((Ok(pv), ob)) => match ob {
                                Some(Err(e)) => out.restore_err = Some(format!("predict_oob error: {}", e)),
                                Some(Ok(o)) => out.restored = Some((pv, Some(o))),
                                None => out.restored = Some((pv, None)),
                            },
                            Ok((Err(e), _)) => out.restore_err = Some(format!("predict error: {}", e)),
                            Err(m) => out.restore_err = Some(format!("panic: {}", m)),
                        },
                    }
                }
                let tr = threshold_rows(case, &out.value);
                if !tr.is_empty() && out.err.is_none() {
                    if let Ok(Ok(v)) = guarded(|| model.predict(&M::build(&tr, layout)).map(M::vec_to64)) {
                        out.thr = Some((tr, v));
                    }
                }
                model_box = Some(Box::new(model));
            }
        }
    }
    if out.words_consumed.is_none() {
        out.words_consumed = guard.as_ref().map(|g| g.served());
    }
    drop(guard);
    out.draw_faults = rand::sim::take_std_faults_fired();
    (out, model_box)
}

/// up to 12 query rows built from the fitted trees' own split thresholds: a training row whose split feature is set
/// to the threshold itself and to its two neighbouring floats (of the element type). Random queries never hit a
/// threshold exactly; these decide which side of `<=` a traversal takes.
fn threshold_rows(case: &Case, value: &Value) -> Vec<Vec<f64>> {
    let mut out: Vec<Vec<f64>> = vec![];
    let trees = match value["trees"].as_array() {
        Some(t) => t,
        None => return out,
    };
    let p = case.x[0].len();
    let mut k = 0usize;
    'outer: for tr in trees.iter() {
        if let Some(nodes) = tr["nodes"].as_array() {
            for nd in nodes {
                if let (Some(j), Some(t)) = (nd["split_feature"].as_u64(), nd["split_value"].as_f64()) {
                    let j = j as usize;
                    if j >= p || !t.is_finite() {
                        continue;
                    }
                    let base = &case.x[k % case.x.len()];
                    k += 1;
                    let (up, down) = if case.f32m {
                        let tf = t as f32;
                        (next_f32(tf, true) as f64, next_f32(tf, false) as f64)
                    } else {
                        (next_f64(t, true), next_f64(t, false))
                    };
                    for v in [t, up, down] {
                        let mut row = base.clone();
                        row[j] = v;
                        out.push(row);
                    }
                    if out.len() >= 12 {
                        break 'outer;
                    }
                }
            }
        }
    }
    out
}
fn next_f64(x: f64, up: bool) -> f64 {
    if x == 0.0 {
        return if up { f64::from_bits(1) } else { -f64::from_bits(1) };
    }
    let b = x.to_bits();
    f64::from_bits(if (x > 0.0) == up { b + 1 } else { b - 1 })
}
fn next_f32(x: f32, up: bool) -> f32 {
    if x == 0.0 {
        return if up { f32::from_bits(1) } else { -f32::from_bits(1) };
    }
    let b = x.to_bits();
    f32::from_bits(if (x > 0.0) == up { b + 1 } else { b - 1 })
}

// (instantiated at the concrete element types: whatever bounds a changed tree puts on `Deserialize` of its models are
// met - or fail - at f32 / f64, not at a generic parameter of the harness)
/// rebuild every member tree from the forest's serde image and call its real `predict` on `rows`
fn member_predictions_f32(task: &str, trees: &[Value], rows: &[Vec<f64>]) -> Result<Vec<Vec<f64>>, (usize, String)> {
    let qm: DenseMatrix<f32> = mat_t::<f32>(rows);
    let mut member = vec![];
    for (t, tv) in trees.iter().enumerate() {
        let r = if task == "clf" {
            serde_json::from_value::<DecisionTreeClassifier<f32>>(tv.clone())
                .map_err(|e| e.to_string())
                .and_then(|tr| guarded(|| tr.predict(&qm)).and_then(|r| r.map_err(|e| e.to_string())))
        } else {
            serde_json::from_value::<DecisionTreeRegressor<f32>>(tv.clone())
                .map_err(|e| e.to_string())
                .and_then(|tr| guarded(|| tr.predict(&qm)).and_then(|r| r.map_err(|e| e.to_string())))
        };
        match r {
            Ok(v) => member.push(to64(v)),
            Err(e) => return Err((t, e)),
        }
    }
    Ok(member)
}

/// byte-identical twins must also be equal under the model's own PartialEq
fn twins_compare_unequal_f32(task: &str, a: &[u8], b: &[u8]) -> bool {
    if task == "clf" {
        match (bincode::deserialize::<RandomForestClassifier<f32>>(a), bincode::deserialize::<RandomForestClassifier<f32>>(b)) {
            (Ok(ma), Ok(mb)) => ma != mb,
            _ => false,
        }
    } else {
        match (bincode::deserialize::<RandomForestRegressor<f32>>(a), bincode::deserialize::<RandomForestRegressor<f32>>(b)) {
            (Ok(ma), Ok(mb)) => ma != mb,
            _ => false,
        }
    }
}

/// rebuild every member tree from the forest's serde image and call its real `predict` on `rows`
fn member_predictions_f64(task: &str, trees: &[Value], rows: &[Vec<f64>]) -> Result<Vec<Vec<f64>>, (usize, String)> {
    let qm: DenseMatrix<f64> = mat_t::<f64>(rows);
    let mut member = vec![];
    for (t, tv) in trees.iter().enumerate() {
        let r = if task == "clf" {
            serde_json::from_value::<DecisionTreeClassifier<f64>>(tv.clone())
                .map_err(|e| e.to_string())
                .and_then(|tr| guarded(|| tr.predict(&qm)).and_then(|r| r.map_err(|e| e.to_string())))
        } else {
            serde_json::from_value::<DecisionTreeRegressor<f64>>(tv.clone())
                .map_err(|e| e.to_string())
                .and_then(|tr| guarded(|| tr.predict(&qm)).and_then(|r| r.map_err(|e| e.to_string())))
        };
        match r {
            Ok(v) => member.push(to64(v)),
            Err(e) => return Err((t, e)),
        }
    }
    Ok(member)
}

/// byte-identical twins must also be equal under the model's own PartialEq
fn twins_compare_unequal_f64(task: &str, a: &[u8], b: &[u8]) -> bool {
    if task == "clf" {
        match (bincode::deserialize::<RandomForestClassifier<f64>>(a), bincode::deserialize::<RandomForestClassifier<f64>>(b)) {
            (Ok(ma), Ok(mb)) => ma != mb,
            _ => false,
        }
    } else {
        match (bincode::deserialize::<RandomForestRegressor<f64>>(a), bincode::deserialize::<RandomForestRegressor<f64>>(b)) {
            (Ok(ma), Ok(mb)) => ma != mb,
            _ => false,
        }
    }
}

/// the "different content, same shape" matrix of op 2
fn alt_rows(case: &Case) -> Vec<Vec<f64>> {
    let mut r: Vec<Vec<f64>> = case.x.iter().rev().cloned().collect();
    for (i, row) in r.iter_mut().enumerate() {
        row[0] += 0.5 + (i % 3) as f64;
        if case.f32m {
            row[0] = row[0] as f32 as f64;
        }
    }
    r
}

type PredFn<'a, M> = &'a dyn Fn(&M) -> Result<Vec<f64>, smartcore::error::Failed>;

/// A borrowed value handed to ONE other thread while this thread is blocked in `join`: access stays exclusive, so no
/// `Sync` bound is demanded from the model (a changed tree may give it interior mutability - that is its business, and
/// the harness must still compile against it).
struct Lend<P>(P);
unsafe impl<P> Send for Lend<P> {}

/// issue the case's call sequence against one fitted forest; the first result of each kind is kept
/// for the oracles, every repetition must be bit-identical to it
fn run_ops<T: RealNumber, M: Mx<T>>(case: &Case, layout: u8, out: &mut FitOut, x: &M, qm: &M, predict: PredFn<'_, M>, predict_oob: PredFn<'_, M>) {
    let alt: M = M::build(&alt_rows(case), layout);
    let default_ops = [0u8, 1u8];
    let ops: &[u8] = if case.ops.is_empty() { &default_ops } else { &case.ops };
    let mut seen_pred = false;
    for (step, op) in ops.iter().enumerate() {
        if *op == 1 && !case.params.keep_samples {
            continue;
        }
        out.calls += 1;
        let r = match op {
            0 => guarded(|| predict(qm)),
            1 => guarded(|| predict_oob(x)),
            2 => guarded(|| predict(&alt)),
            3 => guarded(|| predict(&M::build(&case.x[0..1], layout))),
            5 => {
                let mut t = case.x.clone();
                t.extend(queries_of(case));
                t.reverse();
                guarded(|| predict(&M::build(&t, layout)))
            }
            6 => {
                // the forest is plain data: asked from another (fresh) thread it must give the first answer again
                let lent = Lend((predict as *const (dyn Fn(&M) -> Result<Vec<f64>, smartcore::error::Failed>), qm as *const M));
                match std::thread::scope(|sc| {
                    sc.spawn(move || {
                        let l = lent;
                        // (this thread is the only one touching the forest while the spawning thread waits in join)
                        let (f, q) = unsafe { (&*(l.0).0, &*(l.0).1) };
                        guarded(|| f(q))
                    })
                    .join()
                }) {
                    Ok(r) => r,
                    Err(_) => Err("predict panicked on another thread".to_string()),
                }
            }
            _ => {
                let mut t = case.x.clone();
                t.extend(case.x.iter().cloned());
                guarded(|| predict(&M::build(&t, layout)))
            }
        };
        let name = ["predict", "predict_oob", "predict(other matrix of the training shape)", "predict(single-row matrix)", "predict(training rows stacked twice)", "predict(the same rows in reverse order)", "predict(from another thread)"][(*op).min(6) as usize];
        // op 6 repeats op 0 on another thread: it is compared with (or becomes) the first predict answer
        let op = &(if *op == 6 { 0u8 } else { *op });
        let v = match r {
            Ok(Ok(v)) => v,
            Ok(Err(e)) => {
                out.err = Some(format!("{} error: {}", name, e));
                return;
            }
            Err(m) => {
                out.err = Some(format!("{} panic: {}", name, m));
                return;
            }
        };
        let first: Option<Vec<f64>> = match op {
            0 => {
                if seen_pred {
                    Some(out.pred.clone())
                } else {
                    None
                }
            }
            1 => out.oob.clone(),
            2 => out.alt.clone(),
            3 => out.single.clone(),
            5 => out.rev.clone(),
            _ => out.tall.clone(),
        };
        match first {
            Some(f) => {
                if bits(&f) != bits(&v) && out.repeat_mismatch.is_none() {
                    let at = f.iter().zip(v.iter()).position(|(a, b)| a.to_bits() != b.to_bits());
                    out.repeat_mismatch = Some(format!(
                        "call {} of the sequence {:?} ({}) returned a different result than the first {} (first difference at row {:?})",
                        step, ops, name, name, at
                    ));
                }
            }
            None => match op {
                0 => {
                    out.pred = v;
                    seen_pred = true;
                }
                1 => out.oob = Some(v),
                2 => out.alt = Some(v),
                3 => out.single = Some(v),
                5 => out.rev = Some(v),
                _ => out.tall = Some(v),
            },
        }
    }
}

fn bits(v: &[f64]) -> Vec<u64> {
    v.iter().map(|x| x.to_bits()).collect()
}

/// history pollution: other estimators run between the twins, consuming ambient words and
/// allocating hash maps (their results are irrelevant and not logged)
fn pollute(case: &Case, seed: u64) -> usize {
    let spec = TapeSpec::prng(seed ^ 0x9011_07E5);
    let g = TapeGuard::install(&spec);
    let x = mat(&case.x);
    let _ = guarded(|| KMeans::<f64>::fit(&x, KMeansParameters::default().with_k(2).with_max_iter(3)));
    let _ = guarded(|| {
        let cv = KFold { n_splits: 2, shuffle: true };
        cv.split(&x).count()
    });
    // a forest with another seed, too (shares no state with the twins)
    let mut c2 = case.clone();
    c2.params.seed = case.params.seed.wrapping_add(1);
    c2.params.n_trees = 2;
    drop(g);
    let _ = fit_once(&c2, &Some(TapeSpec::prng(seed ^ 0x77)));
    let mut hs = std::collections::HashSet::new();
    for i in 0..64u64 {
        hs.insert(i.wrapping_mul(seed | 1));
    }
    hs.len()
}

/// The twin fit runs on another OS thread (own thread-local RNG state, own hash-map keys, own
/// allocator arena). The partner thread is replaced by a freshly spawned one every 32 twins:
/// spawning one per twin made 16 workers contend on the process's mmap lock.
struct Partner {
    tx: std::sync::mpsc::Sender<Case>,
    rx: std::sync::mpsc::Receiver<FitOut>,
    uses: u32,
}

thread_local! {
    static PARTNER: std::cell::RefCell<Option<Partner>> = std::cell::RefCell::new(None);
}

fn spawn_partner() -> Partner {
    let (tx, prx) = std::sync::mpsc::channel::<Case>();
    let (ptx, rx) = std::sync::mpsc::channel::<FitOut>();
    std::thread::Builder::new()
        .stack_size(16 << 20)
        .spawn(move || {
            while let Ok(c) = prx.recv() {
                let out = fit_once(&c, &c.ambient_b).0;
                if ptx.send(out).is_err() {
                    break;
                }
            }
        })
        .expect("spawn partner thread");
    Partner { tx, rx, uses: 0 }
}

fn twin_on_partner_thread(case: &Case) -> Result<FitOut, ()> {
    PARTNER.with(|p| {
        let mut g = p.borrow_mut();
        if g.as_ref().map(|x| x.uses >= 32).unwrap_or(true) {
            *g = Some(spawn_partner());
        }
        let part = g.as_mut().unwrap();
        part.uses += 1;
        if part.tx.send(case.clone()).is_err() {
            *g = None;
            return Err(());
        }
        match part.rx.recv() {
            Ok(o) => Ok(o),
            Err(_) => {
                *g = None;
                Err(())
            }
        }
    })
}

impl C06 {
    fn run_inner(&self, case: &Case, rep: &mut Report) {
        let n = case.x.len();
        let p = case.x[0].len();
        let pr = &case.params;
        let ctx = format!(
            "RandomForest{}::fit(n={}, p={}, n_trees={}, m={:?}, max_depth={:?}, min_leaf={}, min_split={}, keep_samples={}, seed={}, matrix={})",
            if case.task == "clf" { "Classifier" } else { "Regressor" },
            n, p, pr.n_trees, pr.m, pr.max_depth, pr.min_samples_leaf, pr.min_samples_split, pr.keep_samples, pr.seed,
            ["DenseMatrix", "ndarray", "ndarray(column-major)", "nalgebra"][(case.backend % 4) as usize]
        );
        let mut d = Digest::new();
        d.str(&case.task).usize(n).usize(p).u64(pr.seed).usize(pr.n_trees);

        // twin A on this thread
        let (a, _model_a) = fit_once(case, &case.ambient_a);
        if case.pollute {
            pollute(case, pr.seed);
            rep.count("fault.history-pollution", 1);
        }
        // twin B on a freshly spawned thread under another ambient stream
        let b = twin_on_partner_thread(case);
        rep.count("fault.thread-hop", 1);
        let amb_differs = case.ambient_a != case.ambient_b;
        rep.count("fault.ambient-perturbation", amb_differs as u64);
        rep.count("fault.ambient-none-installed", (case.ambient_a.is_none() || case.ambient_b.is_none()) as u64);
        rep.count("fault.ambient-extreme", case.ambient_b.as_ref().map(|t| (t.extreme_pm > 0) as u64).unwrap_or(0));
        let b = match b {
            Ok(b) => b,
            Err(_) => {
                rep.fail("panic", "twin-thread", format!("{}: twin fit thread died", ctx));
                rep.log_digest = d.get();
                return;
            }
        };
        d.u64(a.words_consumed.unwrap_or(0) as u64).u64(b.words_consumed.unwrap_or(0) as u64);
        rep.count("steps.forest_fits", 2);
        rep.count("steps.trees_fitted", 2 * pr.n_trees as u64);
        rep.count("fault.seeded-draw-boundary-value", a.draw_faults + b.draw_faults);
        rep.count("fault.seeded-draw-plan-installed", case.std_fault.is_some() as u64);
        rep.count(["steps.twins-on-dense-matrix", "steps.twins-on-ndarray", "steps.twins-on-ndarray-column-major", "steps.twins-on-nalgebra"][(case.backend % 4) as usize], 1);
        if let Some((outcome, ncmp)) = &case.sort_adversary {
            let n = case.x.len() as f64;
            rep.count(&format!("fault.adversarial-sort-order.{}", outcome), 1);
            rep.count("steps.adversary-comparisons", *ncmp);
            // how hard the real sort was hit: comparisons relative to n*log2(n)
            rep.max("sort_adversary_comparisons_over_nlog2n", *ncmp as f64 / (n * n.log2()).max(1.0));
            rep.count("probe.sort-adversary-quadratic", (*ncmp as f64 > n * n / 8.0) as u64);
        }

        if let Some(e) = &a.err {
            rep.fail("fit-failed", "forest-fit", format!("{}: {}", ctx, e));
            rep.log_digest = d.get();
            return;
        }
        // ---- 1. reproducibility
        if a.words_consumed.unwrap_or(0) > 0 || b.words_consumed.unwrap_or(0) > 0 {
            rep.fail(
                "ambient-rng-consumed",
                "forest-reads-ambient-rng",
                format!("{}: the fit consumed {} / {} words from the ambient thread RNG (a seeded forest must only use its own seed)", ctx, a.words_consumed.unwrap_or(0), b.words_consumed.unwrap_or(0)),
            );
        }
        // triplet: the same forest a second time on THIS thread (after the pollution and the twin), under
        // yet another ambient stream: state left behind by the first fit / by other estimators must not matter
        if case.refit_same_thread {
            let amb_c = case.ambient_a.as_ref().map(|t| TapeSpec::prng(t.seed ^ 0x5EC0_17D));
            let (c2, _m) = fit_once(case, &amb_c);
            rep.count("fault.same-thread-refit", 1);
            rep.count("steps.forest_fits", 1);
            if c2.words_consumed.unwrap_or(0) > 0 {
                rep.fail("ambient-rng-consumed", "forest-reads-ambient-rng", format!("{}: the second fit on the same thread consumed {} ambient RNG words", ctx, c2.words_consumed.unwrap_or(0)));
            }
            if a.err.is_none()
                && (c2.err != a.err
                    || c2.bytes != a.bytes
                    || bits(&c2.pred) != bits(&a.pred)
                    || c2.oob.as_ref().map(|v| bits(v)) != a.oob.as_ref().map(|v| bits(v))
                    || c2.alt.as_ref().map(|v| bits(v)) != a.alt.as_ref().map(|v| bits(v))
                    || c2.single.as_ref().map(|v| bits(v)) != a.single.as_ref().map(|v| bits(v))
                    || c2.tall.as_ref().map(|v| bits(v)) != a.tall.as_ref().map(|v| bits(v)))
            {
                rep.fail(
                    "irreproducible",
                    "second-fit-on-same-thread-differs",
                    format!("{}: fitting the same forest a second time on the same thread gives a different {} (error: {:?})", ctx, if c2.bytes != a.bytes { "model" } else { "answer to the same call sequence" }, c2.err),
                );
            }
        }
        if a.err != b.err || a.bytes != b.bytes {
            let first = a.bytes.iter().zip(b.bytes.iter()).position(|(x, y)| x != y);
            rep.fail(
                "irreproducible",
                "same-seed-different-model",
                format!("{}: two fits with identical data, parameters and seed differ (twin on another thread, ambient RNG {}; serialised models {} vs {} bytes, first difference at byte {:?}; twin error {:?})",
                    ctx, if amb_differs { "different" } else { "same" }, a.bytes.len(), b.bytes.len(), first, b.err),
            );
        } else if bits(&a.pred) != bits(&b.pred)
            || a.oob.as_ref().map(|v| bits(v)) != b.oob.as_ref().map(|v| bits(v))
            || a.alt.as_ref().map(|v| bits(v)) != b.alt.as_ref().map(|v| bits(v))
            || a.single.as_ref().map(|v| bits(v)) != b.single.as_ref().map(|v| bits(v))
            || a.tall.as_ref().map(|v| bits(v)) != b.tall.as_ref().map(|v| bits(v))
            || a.thr.as_ref().map(|v| bits(&v.1)) != b.thr.as_ref().map(|v| bits(&v.1))
        {
            rep.fail("irreproducible", "same-model-different-predictions", format!("{}: twins are byte-identical but predict differently", ctx));
        }
        if let Some(m) = a.repeat_mismatch.as_ref().or(b.repeat_mismatch.as_ref()) {
            rep.fail("irreproducible", "same-forest-different-answers", format!("{}: {}", ctx, m));
        }
        rep.count("steps.forest_api_calls", a.calls + b.calls);
        // model's own equality: a model equals its twin
        let twins_unequal = if case.f32m { twins_compare_unequal_f32(&case.task, &a.bytes, &b.bytes) } else { twins_compare_unequal_f64(&case.task, &a.bytes, &b.bytes) };
        if a.bytes == b.bytes && twins_unequal {
            rep.fail("irreproducible", "partial-eq", format!("{}: byte-identical twins compare unequal under the model's own PartialEq", ctx));
        }
        let mut md = Digest::new();
        md.bytes(&a.bytes);
        rep.aux_digest = md.get();

        // ---- 2. size
        let trees = a.value["trees"].as_array().cloned().unwrap_or_default();
        if trees.len() != pr.n_trees {
            rep.fail("tree-count", "forest-model", format!("{}: the forest holds {} trees", ctx, trees.len()));
        }
        let samples: Option<Vec<Vec<bool>>> = a.value["samples"].as_array().map(|s| {
            s.iter().map(|m| m.as_array().map(|mm| mm.iter().map(|b| b.as_bool().unwrap_or(false)).collect()).unwrap_or_default()).collect()
        });
        if pr.keep_samples {
            match &samples {
                None => rep.fail("samples-missing", "forest-model", format!("{}: keep_samples on but no samples in the model", ctx)),
                Some(s) => {
                    if s.len() != trees.len() || s.iter().any(|m| m.len() != n) {
                        rep.fail("samples-shape", "forest-model", format!("{}: {} sample masks (lengths {:?}) for {} trees and {} rows", ctx, s.len(), s.iter().map(|m| m.len()).take(4).collect::<Vec<_>>(), trees.len(), n));
                    }
                }
            }
        }
        // ---- 3. aggregation: rebuild every member tree from the serde image and call its real predict
        let mut q = case.x.clone();
        q.extend(queries_of(case));
        let nq = q.len();
        // member trees also predict the op-2 matrix (appended after the queries)
        let altm = alt_rows(case);
        let mut q_all = q.clone();
        q_all.extend(altm.iter().cloned());
        // ... and the rows on the trees' own split thresholds (appended after the op-2 matrix)
        let thr_at = q_all.len();
        if let Some((rows, _)) = &a.thr {
            q_all.extend(rows.iter().cloned());
            rep.count("steps.threshold-rows", rows.len() as u64);
        }
        let member: Vec<Vec<f64>> = match if case.f32m { member_predictions_f32(&case.task, &trees, &q_all) } else { member_predictions_f64(&case.task, &trees, &q_all) } {
            Ok(m) => m,
            Err((t, e)) => {
                rep.fail("member-tree", "forest-model", format!("{}: member tree {} cannot be rebuilt / predict: {}", ctx, t, e));
                rep.log_digest = d.get();
                return;
            }
        };
        let mut labels = case.y.clone();
        labels.sort_by(|x, y| x.partial_cmp(y).unwrap());
        labels.dedup();
        let ymin = case.y.iter().cloned().fold(f64::INFINITY, f64::min);
        let ymax = case.y.iter().cloned().fold(f64::NEG_INFINITY, f64::max);
        // relative to the actual magnitude of the targets (no floor at 1: small targets are judged as strictly as
        // large ones) plus a few units of the smallest subnormal, the granularity of every result near zero
        let yscale = ymin.abs().max(ymax.abs());
        let q1 = if case.f32m { f32::from_bits(1) as f64 } else { f64::from_bits(1) };
        // Below the normal range the unit of rounding is the smallest subnormal: an aggregation that rounds once per tree
        // (a running mean, say) may be off by half a unit per tree, a single division by one unit. (n_trees + 4) units.
        // What separates a legitimate aggregation from a broken one there is the unanimous case, judged below: when every
        // member tree predicts the same value the mean IS that value.
        let quantum = (4.0 + pr.n_trees as f64) * q1;
        // range clause near zero: the trees derive a node's sum from its rounded mean (mean * count) and a child's mean
        // from the difference of two such sums, so a leaf value carries up to (rows in the root / rows in the leaf) / 2
        // roundings per level — relative to the values in the normal range (covered by range_tol), in units of the
        // smallest subnormal below it. n^2 units is beyond any depth; it is 7e-320 for 120 rows.
        let range_quantum = (4.0 + (n * n) as f64) * q1;
        // f32: leaf means come from single-precision running sums (worst excursion beyond the target range seen on the unchanged tree: 1.4e-5 of the scale)
        let (mean_tol, range_tol) = if case.f32m { (1e-4, 1e-3) } else { (1e-12, 1e-9) };
        let agg = |rows_of_trees: &[usize], row: usize| -> (Vec<(f64, usize)>, f64) {
            // (votes per label, mean)
            let mut votes: Vec<(f64, usize)> = labels.iter().map(|l| (*l, 0usize)).collect();
            let mut sum = 0.0;
            for &t in rows_of_trees {
                let v = member[t][row];
                sum += v;
                if let Some(e) = votes.iter_mut().find(|e| e.0 == v) {
                    e.1 += 1;
                }
            }
            (votes, if rows_of_trees.is_empty() { f64::NAN } else { sum / rows_of_trees.len() as f64 })
        };
        let all: Vec<usize> = (0..member.len()).collect();
        // forest answers to judge: predict(q) followed, when issued, by predict(other matrix)
        let q = q_all;
        // (forest answer, row of `q` whose member-tree predictions it must aggregate)
        let mut to_judge: Vec<(f64, usize)> = a.pred.iter().cloned().enumerate().map(|(i, v)| (v, i)).collect();
        if let Some(alt) = &a.alt {
            to_judge.extend(alt.iter().cloned().enumerate().map(|(i, v)| (v, nq + i)));
        }
        if let Some(sg) = &a.single {
            to_judge.extend(sg.iter().cloned().map(|v| (v, 0)));
        }
        if let Some((_, tp)) = &a.thr {
            to_judge.extend(tp.iter().cloned().enumerate().map(|(i, v)| (v, thr_at + i)));
        }
        if let Some(tl) = &a.tall {
            to_judge.extend(tl.iter().cloned().enumerate().map(|(i, v)| (v, i % n)));
        }
        if let Some(rv) = &a.rev {
            if rv.len() != nq {
                rep.fail("shape", "forest-predict", format!("{}: {} predictions for the {} standard rows in reverse order", ctx, rv.len(), nq));
            } else {
                to_judge.extend(rv.iter().cloned().enumerate().map(|(i, v)| (v, nq - 1 - i)));
                rep.count("fault.same-rows-asked-again-in-another-order", 1);
            }
        }
        if let Some(mv) = &a.many {
            let src = many_src(case);
            if mv.len() != src.len() {
                rep.fail("shape", "forest-predict", format!("{}: {} predictions for a matrix of {} rows", ctx, mv.len(), src.len()));
            } else {
                to_judge.extend(mv.iter().cloned().zip(src.iter().cloned()));
            }
            rep.count("fault.many-rows-in-one-call", 1);
            rep.count("steps.rows-in-many-row-calls", src.len() as u64);
        }
        if case.roundtrip > 0 {
            rep.count("fault.model-restored-from-serialised-form", 1);
        }
        if let Some(e) = &a.restore_err {
            rep.fail("restore-failed", "forest-model", format!("{}: the fitted forest does not survive serialisation / cannot be asked afterwards: {}", ctx, e));
        }
        if let Some((rp, _)) = &a.restored {
            if rp.len() != nq {
                rep.fail("shape", "forest-predict", format!("{}: restored forest: {} predictions for {} rows", ctx, rp.len(), nq));
            } else {
                to_judge.extend(rp.iter().cloned().enumerate().map(|(i, v)| (v, i)));
            }
        }
        let pred_ok_len = a.pred.len() == nq
            && a.alt.as_ref().map(|v| v.len() == n).unwrap_or(true)
            && a.single.as_ref().map(|v| v.len() == 1).unwrap_or(true)
            && a.tall.as_ref().map(|v| v.len() == 2 * n).unwrap_or(true);
        if pred_ok_len && !member.is_empty() && !a.pred.is_empty() {
            for (got_v, i) in to_judge.iter().cloned() {
                let a_pred = |_: usize| got_v;
                let (votes, mean) = agg(&all, i);
                if case.task == "clf" {
                    let got = a_pred(i);
                    let maxv = votes.iter().map(|e| e.1).max().unwrap_or(0);
                    match votes.iter().find(|e| e.0 == got) {
                        None => {
                            rep.fail("label-not-original", "forest-predict", format!("{}: predict returned {} for row {:?}; the training labels are {:?}", ctx, got, q[i], labels));
                            break;
                        }
                        Some(e) => {
                            if e.1 != maxv {
                                rep.fail("not-plurality", "forest-predict", format!("{}: predict returned {} for row {:?} but member trees vote {:?}", ctx, got, q[i], votes));
                                break;
                            }
                        }
                    }
                    let total: usize = votes.iter().map(|e| e.1).sum();
                    if total != member.len() {
                        rep.fail("label-not-original", "member-tree", format!("{}: a member tree predicted a value that is no training label for row {:?}", ctx, q[i]));
                        break;
                    }
                } else {
                    let err = (a_pred(i) - mean).abs();
                    rep.max(if case.f32m { "reg_mean_err_rel_f32" } else { "reg_mean_err_rel_f64" }, err / (yscale + quantum));
                    // unanimous member trees: the mean of identical values is that value - up to about k ulp of the element type
                    // in the normal range (the sum of k copies rounds), exactly where the arithmetic is exact (values that are
                    // small multiples of the smallest subnormal)
                    let first = member[0][i];
                    if first.is_finite() && member.iter().all(|m| m[i].to_bits() == first.to_bits()) {
                        rep.count("steps.unanimous-rows-judged", 1);
                        // (spacing of the element type at v: v * eps in the normal range, the smallest subnormal below it)
                        let ulp = (first.abs() * if case.f32m { f32::EPSILON as f64 } else { f64::EPSILON }).max(q1);
                        // (k copies of an integer number of units add up exactly while the total stays below 2^23 / 2^52 units)
                        let exact_regime = first.abs() * (member.len() as f64) < q1 * if case.f32m { 8_388_608.0 } else { 4_503_599_627_370_496.0 };
                        // (normal range: k sequential additions round at the magnitude of the partial sums, up to k*v, then one
                        // division: at most about k ulp of v. The first version allowed 2 ulp and raised a false alarm in the
                        // thorough tier: 24 unanimous trees, forest 4 ulp away.)
                        let allow = if exact_regime { 0.0 } else { (member.len() as f64 + 2.0) * ulp };
                        if !((a_pred(i) - first).abs() <= allow) {
                            rep.fail("not-mean", "forest-predict-unanimous", format!("{}: all {} member trees predict {:e} for row {:?}, the forest returns {:e}", ctx, member.len(), first, q[i], a_pred(i)));
                            break;
                        }
                    }
                    if !(err <= mean_tol * yscale + quantum) {
                        rep.fail("not-mean", "forest-predict", format!("{}: predict returned {:e} for row {:?}; the mean of the member trees is {:e}", ctx, a_pred(i), q[i], mean));
                        break;
                    }
                    if !(a_pred(i) >= ymin - range_tol * yscale - range_quantum && a_pred(i) <= ymax + range_tol * yscale + range_quantum) {
                        rep.fail("out-of-range", "forest-predict", format!("{}: prediction {:e} for row {:?} is outside the target range [{:e}, {:e}]", ctx, a_pred(i), q[i], ymin, ymax));
                        break;
                    }
                }
            }
        } else if !pred_ok_len {
            rep.fail("shape", "forest-predict", format!("{}: {} predictions for {} rows (other matrix: {:?} for {}, single-row matrix: {:?}, stacked matrix: {:?} for {})", ctx, a.pred.len(), nq, a.alt.as_ref().map(|v| v.len()), n, a.single.as_ref().map(|v| v.len()), a.tall.as_ref().map(|v| v.len()), 2 * n));
        }
        // ---- 4. out-of-bag history
        let mut rows_with_oob = 0usize;
        let mut oob_answers: Vec<(&'static str, &Vec<f64>)> = vec![];
        if let Some(o) = &a.oob {
            oob_answers.push(("predict_oob", o));
        }
        if let Some((_, Some(o))) = &a.restored {
            oob_answers.push(("predict_oob of the restored forest", o));
        }
        for (which, oob) in oob_answers.iter().cloned() {
            let s = match &samples { Some(s) => s, None => break };
            if rep.violation.is_some() {
                break;
            }
            let ctx = if which == "predict_oob" { ctx.clone() } else { format!("{} [{}]", ctx, which) };
            if s.len() == member.len() && oob.len() == n && s.iter().all(|m| m.len() == n) {
                // rows that are in the bag of every tree: the out-of-bag aggregate runs over NO tree. Whatever value the
                // library's convention gives for an empty aggregate (0/0, the first class, ...), it is the same empty
                // aggregate for all of them: the values must not differ from row to row — if they do, trees that contain
                // the row have been consulted.
                let no_tree: Vec<usize> = (0..n).filter(|i| (0..s.len()).all(|t| s[t][*i])).collect();
                if no_tree.len() >= 2 {
                    let first = oob[no_tree[0]];
                    if let Some(j) = no_tree.iter().find(|j| oob[**j].to_bits() != first.to_bits()) {
                        rep.fail(
                            "oob-uses-in-bag-trees",
                            "forest-oob",
                            format!("{}: training rows {} and {} are in the bag of every tree, yet predict_oob returns {:e} for one and {:e} for the other (an aggregate over no tree cannot depend on the row)", ctx, no_tree[0], j, first, oob[*j]),
                        );
                    }
                    rep.count("probe.rows-without-oob-tree-compared", 1);
                }
                for i in 0..n {
                    let ts: Vec<usize> = (0..s.len()).filter(|t| !s[*t][i]).collect();
                    if ts.is_empty() {
                        rep.count("probe.row-without-oob-tree", 1);
                        continue;
                    }
                    rows_with_oob += 1;
                    let (votes, mean) = agg(&ts, i);
                    if case.task == "clf" {
                        let maxv = votes.iter().map(|e| e.1).max().unwrap_or(0);
                        match votes.iter().find(|e| e.0 == oob[i]) {
                            None => {
                                rep.fail("label-not-original", "forest-oob", format!("{}: predict_oob returned {} for training row {}", ctx, oob[i], i));
                                break;
                            }
                            Some(e) => {
                                if e.1 != maxv {
                                    rep.fail(
                                        "oob-not-plurality",
                                        "forest-oob",
                                        format!("{}: predict_oob returned {} for training row {} but the {} trees whose bootstrap sample does not contain it vote {:?}", ctx, oob[i], i, ts.len(), votes),
                                    );
                                    break;
                                }
                            }
                        }
                    } else {
                        let err = (oob[i] - mean).abs();
                        rep.max(if case.f32m { "reg_oob_mean_err_rel_f32" } else { "reg_oob_mean_err_rel_f64" }, err / (yscale + quantum));
                        if !(err <= mean_tol * yscale + quantum) {
                            rep.fail(
                                "oob-not-mean",
                                "forest-oob",
                                format!("{}: predict_oob returned {:e} for training row {}; the mean over the {} trees whose bootstrap sample does not contain it is {:e}", ctx, oob[i], i, ts.len(), mean),
                            );
                            break;
                        }
                        if !(oob[i] >= ymin - range_tol * yscale - range_quantum && oob[i] <= ymax + range_tol * yscale + range_quantum) {
                            rep.fail("out-of-range", "forest-oob", format!("{}: OOB prediction {:e} for row {} outside the target range", ctx, oob[i], i));
                            break;
                        }
                    }
                }
            } else if oob.len() != n {
                rep.fail("shape", "forest-oob", format!("{}: {} out-of-bag predictions for {} training rows", ctx, oob.len(), n));
            }
        }
        if let Some(s) = &samples {
            // ---- 4b. the kept masks against the recorded history: the probe at the start of every tree fit logged the
            // sample counts each tree was grown from. The mask the model keeps for tree t must be the support of the
            // sample tree t was grown from - otherwise "the trees whose bootstrap sample did not contain row i" is not
            // what predict_oob aggregates. Masks are matched to fit events in order (an implementation may fit and
            // discard trees; a mask that is the support of no remaining event is the violation).
            rep.count("steps.tree-fit-events", a.bags.len() as u64);
            // (the probe is thread-local: an implementation that grows trees on worker threads delivers fewer events than
            // there are trees - then there is no complete history to judge against, and the clause is skipped)
            rep.count("probe.tree-fit-history-incomplete", (a.bags.len() < s.len()) as u64);
            if rep.violation.is_none() && s.iter().all(|m| m.len() == n) && a.bags.len() >= s.len() {
                let mut ev = 0usize;
                for (t, m) in s.iter().enumerate() {
                    let mut found = false;
                    while ev < a.bags.len() {
                        let bag = &a.bags[ev];
                        ev += 1;
                        if bag.len() == n && (0..n).all(|i| (bag[i] > 0) == m[i]) {
                            found = true;
                            break;
                        }
                    }
                    if !found {
                        let grown: Vec<usize> = a.bags.get(t).map(|b| (0..b.len()).filter(|i| b[*i] > 0).collect()).unwrap_or_default();
                        let kept: Vec<usize> = (0..n).filter(|i| m[*i]).collect();
                        rep.fail("mask-not-bag", "forest-bootstrap", format!("{}: the kept bootstrap mask of tree {} lists rows {:?}, but no tree fit (from fit event {} on) was grown from a sample with that support; fit event {} used rows {:?}", ctx, t, kept, t, t, grown));
                        break;
                    }
                    rep.count("steps.masks-matched-to-fit-events", 1);
                }
            }
            // ---- 5. stratification (classifier): every bootstrap sample holds every class
            if case.task == "clf" {
                'outer: for (t, m) in s.iter().enumerate() {
                    for l in &labels {
                        if !(0..n.min(m.len())).any(|i| case.y[i] == *l && m[i]) {
                            rep.fail("not-stratified", "forest-bootstrap", format!("{}: the bootstrap sample of tree {} contains no row of class {}", ctx, t, l));
                            break 'outer;
                        }
                    }
                }
                let min_class = labels.iter().map(|l| case.y.iter().filter(|v| *v == l).count()).min().unwrap_or(0);
                rep.count("probe.class-with-single-row", (min_class == 1) as u64);
            }
        }
        rep.count("probe.m-equals-p-no-feature-shuffle", (pr.m == Some(p)) as u64);
        // harness-level log only (case, words served): a verdict that flips between two executions of the
        // same case is C06's own violation (class irreproducible), never a harness error
        rep.log_digest = d.get();
        let rows_with_oob_tree = samples.as_ref().map(|s| (0..n).filter(|i| s.iter().any(|m| m.len() == n && !m[*i])).count()).unwrap_or(0);
        let _ = rows_with_oob;
        if pr.n_trees >= 2 && (rows_with_oob_tree > 0 || !pr.keep_samples) {
            let mut sd = Digest::new();
            sd.u64(pr.seed).u64(rep.aux_digest);
            rep.schedule = Some(sd.get());
        }
        if let Some(s) = &samples {
            for m in s.iter().take(8) {
                let mut st = Digest::new();
                st.usizes(&m.iter().map(|b| *b as usize).collect::<Vec<_>>());
                rep.states.push(st.get());
            }
        }
    }
}

fn gen_case(batch: &str, _index: u64, seed: u64) -> Case {
    let mut r = Xo::fork(seed, "workload");
    let mut pr = Xo::fork(seed, "parameters");
    let mut sc = Xo::fork(seed, "schedule");
    let task = if batch.contains("reg") { "reg" } else if batch.contains("clf") { "clf" } else if pr.chance(0.5) { "clf" } else { "reg" };
    let mut n = if pr.chance(0.5) { pr.usize_in(4, 30) } else { pr.usize_in(4, 120) };
    if batch == "twins-sort-adversary" {
        // the party needs room: mostly the upper half of the domain
        n = if pr.chance(0.75) { pr.usize_in(64, 120) } else { pr.usize_in(8, 63) };
    }
    let p = pr.usize_in(1, 6);
    let lattice = r.chance(0.35);
    // lattices: 0..4, centred (-2..2), sign-coded (-1 / +1) and half-steps around zero: thresholds between
    // neighbouring values can be exactly 0.0
    let lat_kind = r.below(4);
    let mut x: Vec<Vec<f64>> = (0..n)
        .map(|_| {
            (0..p)
                .map(|_| {
                    if lattice {
                        match lat_kind {
                            0 => r.below(5) as f64,
                            1 => r.below(5) as f64 - 2.0,
                            2 => if r.chance(0.5) { -1.0 } else { 1.0 },
                            _ => 0.5 * (r.below(6) as f64) - 1.25,
                        }
                    } else {
                        r.range(-3.0, 3.0)
                    }
                })
                .collect()
        })
        .collect();
    // negative zero is a legal feature value that compares equal to zero
    if lattice && r.chance(0.1) {
        for row in x.iter_mut() {
            for v in row.iter_mut() {
                if *v == 0.0 && r.chance(0.5) {
                    *v = -0.0;
                }
            }
        }
    }
    // sometimes one feature is constant (no split possible on it)
    if p > 1 && r.chance(0.1) {
        let col = r.below(p as u64) as usize;
        let v = *r.pick(&[0.0, 1.0, -3.5]);
        for row in x.iter_mut() {
            row[col] = v;
        }
    }
    // sometimes one feature takes values that are neighbours in f64 (1, 1+ulp, 1+2ulp, ...): thresholds
    // between them cannot be represented (the midpoint rounds onto one of the two values)
    if r.chance(0.12) {
        let col = r.below(p as u64) as usize;
        let base = *r.pick(&[1.0f64, -2.5, 1024.0, 1e-3]);
        let levels = r.usize_in(2, 4) as u64;
        for row in x.iter_mut() {
            let steps = r.below(levels);
            row[col] = f64::from_bits((base.to_bits() as i64 + if base > 0.0 { steps as i64 } else { -(steps as i64) }) as u64);
        }
    }
    // sometimes one feature column comes in a structured row order (ascending, descending, organ pipe, saw-tooth,
    // interleaved halves): the orders a presort meets when data were exported from a sorted table
    if r.chance(0.1) {
        let col = r.below(p as u64) as usize;
        let mut vals: Vec<f64> = x.iter().map(|row| row[col]).collect();
        vals.sort_by(|a, b| a.partial_cmp(b).unwrap());
        let order: Vec<usize> = match r.below(5) {
            0 => (0..n).collect(),
            1 => (0..n).rev().collect(),
            2 => (0..n).map(|i| if i < n / 2 { 2 * i } else { (2 * (n - 1 - i) + 1).min(n - 1) }).collect(),
            3 => { let t = r.usize_in(2, 9); (0..n).map(|i| (i % t) * (n / t).max(1) + i / t).map(|v| v.min(n - 1)).collect() }
            _ => (0..n).map(|i| if i % 2 == 0 { i / 2 } else { (n + i) / 2 }).map(|v| v.min(n - 1)).collect(),
        };
        for (i, row) in x.iter_mut().enumerate() {
            row[col] = vals[order[i]];
        }
    }
    // adversarial comparator party: one column ordered as the worst case of the tree's own index sort, found by
    // leading the real sort with lazily decided comparisons; any increasing map of the ranks keeps the order
    let mut sort_adversary = None;
    if batch == "twins-sort-adversary" {
        let k = crate::core::adversary::killer_for_real_sort(n);
        if k.outcome != "abandoned" {
            let col = r.below(p as u64) as usize;
            let shape = r.below(5);
            let (a, b) = (r.range(-50.0, 50.0), r.range(0.01, 20.0));
            for (i, row) in x.iter_mut().enumerate() {
                let v = k.values[i] as f64;
                row[col] = match shape {
                    0 => v,
                    1 => a + b * v,
                    2 => (v / 8.0).exp2(),
                    3 => -((n as f64 - v) / 4.0).exp2(),
                    _ => v - (n / 2) as f64,
                };
            }
        }
        sort_adversary = Some((k.outcome.to_string(), k.comparisons));
    }
    let y: Vec<f64>;
    if task == "clf" {
        let kcls = pr.usize_in(2, 4).min(n);
        // label values are arbitrary reals: also sets whose members share an integer part (0.25 / 0.75,
        // -0.5 / 0.5) and large or tiny magnitudes
        let label_sets: [&[f64]; 11] = [
            // two labels one ulp apart (0.3 and 0.1 + 0.2): still two classes
            &[0.3, 0.30000000000000004, 1.0, 2.0],
            &[0.0, 1.0, 2.0, 3.0],
            &[-1.0, 1.0, 5.0, 7.0],
            &[2.5, -3.0, 10.0, 11.0],
            &[1.0, 2.0, 3.0, 4.0],
            &[-7.0, -2.0, 0.0, 100.0],
            &[0.25, 0.75, 1.0, 1.5],
            &[-0.5, 0.5, 0.1, 2.0],
            &[1e6, 1000000.5, -1e-3, 1e-3],
            // fractional labels inside an exact 0..k-1 frame (a label is not its own index)
            &[0.0, 0.5, 2.0, 3.0],
            &[0.0, 1.5, 1.0, 3.0],
        ];
        // (the one-ulp-apart f64 labels would collapse in f32)
        let ls = label_sets[if batch == "twins-f32" { 1 + pr.below(10) as usize } else { pr.below(11) as usize }];
        let skew = pr.chance(0.4);
        let mut yy: Vec<f64> = (0..n)
            .map(|i| {
                // signal from the first feature + noise, so trees are not trivial
                let c = if skew {
                    if r.chance(0.85) { 0 } else { 1 + r.below(kcls as u64 - 1).min(kcls as u64 - 2) as usize }
                } else {
                    let s = x[i][0] + 0.8 * r.gaussish();
                    (((s + 3.0) / 6.0 * kcls as f64).floor().max(0.0) as usize).min(kcls - 1)
                };
                ls[c.min(kcls - 1)]
            })
            .collect();
        // every class present at least once (the single-row-class corner is kept)
        for c in 0..kcls {
            if !yy.contains(&ls[c]) {
                let at = (c * 7 + 1) % n;
                yy[at] = ls[c];
            }
        }
        // zero has two signs that compare equal: a class labelled 0 may hold +0.0 and -0.0 rows
        if r.chance(0.3) {
            for v in yy.iter_mut() {
                if *v == 0.0 && r.chance(0.5) {
                    *v = -0.0;
                }
            }
        }
        // make sure at least two classes survive the overwrite above
        let mut u = yy.clone();
        u.sort_by(|a, b| a.partial_cmp(b).unwrap());
        u.dedup();
        if u.len() < 2 {
            yy[0] = ls[0];
            yy[1] = ls[1];
        }
        y = yy;
    } else {
        let coef: Vec<f64> = (0..p).map(|_| r.range(-2.0, 2.0)).collect();
        let off = *pr.pick(&[0.0, 0.0, 100.0, -5.0]);
        let mut yy: Vec<f64> = x.iter().map(|row| off + row.iter().zip(&coef).map(|(a, b)| a * b).sum::<f64>() + 0.3 * r.gaussish()).collect();
        // target magnitudes: real targets are not all of order one. Tiny (down to a few units of the smallest
        // subnormal, where every division rounds to a multiple of it) and large (squares still finite)
        let single = batch == "twins-f32";
        match pr.below(12) {
            0 => {
                let s = if single { 1e-38 } else { 1e-300 };
                for v in yy.iter_mut() { *v *= s; }
            }
            1 => {
                // integers 0..8 times the smallest positive subnormal of the element type
                let q = if single { f32::from_bits(1) as f64 } else { f64::from_bits(1) };
                let lo = yy.iter().cloned().fold(f64::INFINITY, f64::min);
                let hi = yy.iter().cloned().fold(f64::NEG_INFINITY, f64::max);
                let span = (hi - lo).max(1e-9);
                for v in yy.iter_mut() { *v = ((*v - lo) / span * 8.0).round() * q; }
            }
            2 => {
                let s = if single { 1e12 } else { 1e100 }; // sums of n squares must stay finite in the element type (1e15 * offsets of 100 overflowed f32 variance sums: inf - inf = NaN scores, a model unequal to itself)
                for v in yy.iter_mut() { *v *= s; }
            }
            3 => { for v in yy.iter_mut() { *v *= 1e-3; } }
            _ => {}
        }
        y = yy;
    }
    // seeds: random u64, the obvious corners, and structured values around the arithmetic boundaries of the
    // usual seed mixers (golden-ratio and splitmix constants: seed ^ K or seed + K close to u64::MAX or to 0)
    const MIXERS: [u64; 4] = [0x9E37_79B9_7F4A_7C15, 0xBF58_476D_1CE4_E5B9, 0x94D0_49BB_1331_11EB, 0x2545_F491_4F6C_DD1D];
    let seedv = match pr.below(8) {
        0 => 0,
        1 => 1,
        2 => u64::MAX,
        3 => {
            let k = *pr.pick(&MIXERS);
            let d = pr.below(4);
            match pr.below(4) {
                0 => (u64::MAX ^ k).wrapping_sub(d),
                1 => (u64::MAX - k).wrapping_add(d),
                2 => k.wrapping_sub(d),
                _ => (0u64.wrapping_sub(k)).wrapping_add(d),
            }
        }
        4 => *pr.pick(&[u64::MAX - 1, 1 << 63, (1 << 63) - 1, 1 << 32, (1 << 32) - 1, u32::MAX as u64 + 1]),
        _ => pr.u64(),
    };
    let params = Params {
        n_trees: if pr.chance(0.3) { pr.usize_in(1, 3) } else { pr.usize_in(1, 30) },
        m: if pr.chance(0.3) { None } else { Some(pr.usize_in(1, p)) },
        max_depth: if pr.chance(0.5) { None } else { Some(pr.usize_in(1, 8) as u16) },
        min_samples_leaf: pr.usize_in(1, 5),
        min_samples_split: pr.usize_in(0, 8),
        criterion: pr.pick(&["gini", "entropy", "class-error"]).to_string(),
        keep_samples: pr.chance(0.7),
        seed: seedv,
    };
    let nq = pr.usize_in(0, 8);
    let queries = (0..nq).map(|_| (0..p).map(|_| r.range(-4.0, 4.0)).collect()).collect();
    let f32m = batch == "twins-f32";
    let (mut x, mut y) = (x, y);
    let mut queries: Vec<Vec<f64>> = queries;
    if f32m {
        for row in x.iter_mut().chain(queries.iter_mut()) {
            for v in row.iter_mut() {
                *v = *v as f32 as f64;
            }
        }
        for v in y.iter_mut() {
            *v = *v as f32 as f64;
        }
    }
    let ta = TapeSpec::prng(sc.u64());
    let tb = TapeSpec::prng(sc.u64());
    let (ambient_a, ambient_b, kind) = match batch {
        "twins-seeded" | "twins-clf" | "twins-reg" | "twins-f32" => (Some(ta), Some(tb), "ambient seeded / seeded-other"),
        "twins-draw-faults" => (Some(ta), Some(tb), "ambient seeded / seeded-other, boundary values in the forest's own generator"),
        "twins-sort-adversary" => (Some(ta), Some(tb), "ambient seeded / seeded-other, one feature column ordered by the adversarial comparator party"),
        "twins-extreme" => {
            let mut e = tb;
            e.extreme_pm = *pr.pick(&[200u32, 1000]);
            (Some(ta), Some(e), "ambient seeded / extreme")
        }
        "twins-none" => {
            if pr.chance(0.5) { (Some(ta), None, "ambient seeded / none installed") } else { (None, None, "ambient none / none") }
        }
        _ => panic!("unknown batch {}", batch),
    };
    // call sequence: always at least one predict; order and repetitions vary (swarm style)
    let mut ops: Vec<u8> = vec![0];
    let extra = pr.usize_in(1, 5);
    for _ in 0..extra {
        ops.push(pr.below(7) as u8);
    }
    pr.shuffle(&mut ops);
    let (pollute, refit_same_thread, ctor) = (pr.chance(0.5), pr.chance(0.5), pr.below(6) as u8);
    // boundary values in the forest's own seeded generator: rates from "one or two per forest" to "a third of all draws"
    let mut nonfinite_cells = vec![];
    {
        let mut nf = Xo::fork(seed, "nonfinite");
        if !queries.is_empty() && nf.chance(0.15) {
            for _ in 0..nf.usize_in(1, 3) {
                nonfinite_cells.push((nf.below(queries.len() as u64) as usize, nf.below(p as u64) as usize, 1 + nf.below(3) as u8));
            }
        }
    }
    let (many, roundtrip) = {
        let mut po = Xo::fork(seed, "post");
        (if po.chance(0.01) { *po.pick(&[1030usize, 2060, 4100, 4100, 4100, 8200, 16_400, 65_600]) } else { 0 }, if po.chance(0.2) { 1 + po.below(2) as u8 } else { 0 })
    };
    let backend = { let mut bk = Xo::fork(seed, "backend"); if bk.chance(0.2) { 1 + bk.below(3) as u8 } else { 0 } };
    let std_fault = if batch == "twins-draw-faults" { Some((sc.u64(), *pr.pick(&[300u32, 3000, 30_000, 150_000, 350_000]))) } else { None };
    Case { task: task.into(), x, y, params, queries, ambient_a, ambient_b, pollute, ops, refit_same_thread, kind: kind.into(), ctor, f32m, std_fault, nonfinite_cells, sort_adversary, many, roundtrip, backend }
}

impl Property for C06 {
    type Case = Case;
    fn id(&self) -> &'static str {
        "C06"
    }
    fn batches(&self, tier: Tier) -> Vec<Batch> {
        let q = tier == Tier::Quick;
        vec![
            Batch { name: "twins-clf", count: if q { 10_000 } else { 500_000 }, simulated: true, exhaustive: false, note: "classifier twins: fit A under ambient stream alpha, pollution, fit B on a fresh thread under stream gamma" },
            Batch { name: "twins-reg", count: if q { 10_000 } else { 500_000 }, simulated: true, exhaustive: false, note: "regressor twins, same protocol" },
            Batch { name: "twins-f32", count: if q { 5_000 } else { 250_000 }, simulated: true, exhaustive: false, note: "classifier and regressor twins in single precision" },
            Batch { name: "twins-extreme", count: if q { 5_000 } else { 250_000 }, simulated: true, exhaustive: false, note: "twin B's ambient RNG serves extreme words" },
            Batch { name: "twins-draw-faults", count: if q { 6_000 } else { 300_000 }, simulated: true, exhaustive: false, note: "the forest's own seeded generator serves boundary values (0, 1, MAX, MAX-1, 2^k-1) at a seeded subset of its draws, identically for every twin: bootstrap samples and sub-seeds a ChaCha stream reaches with negligible probability" },
            Batch { name: "twins-sort-adversary", count: if q { 1_500 } else { 60_000 }, simulated: true, exhaustive: false, note: "adversarial comparator party: the tree fits' own index sort (real code, driven through its generic element type) is led through its worst case by lazily decided comparisons (McIlroy's adversary); the resulting order becomes a feature column of the twins" },
            Batch { name: "many-rows-huge", count: if q { 3 } else { 12 }, simulated: true, exhaustive: false, note: "one predict call with 3e5..1.1e6 rows (thorough: up to 4.2e6): block sizes of 2^18..2^22 elements; a cap beyond the largest call made here stays invisible" },
            Batch { name: "twins-none", count: if q { 5_000 } else { 250_000 }, simulated: true, exhaustive: false, note: "no simulator source installed for one or both twins (real OS-seeded ThreadRng)" },
        ]
    }
    fn gen(&self, batch: &str, index: u64, seed: u64) -> Case {
        if batch == "many-rows-huge" {
            // a forest whose answers differ from row to row (several trees, no dominating class, enough rows): otherwise
            // an answer that belongs to another row of the call could not be told from the right one
            let mut c = gen_case(if index % 2 == 0 { "twins-clf" } else { "twins-reg" }, index, seed);
            for j in 1..200u64 {
                let lively = c.params.n_trees >= 8 && c.x.len() >= 24 && {
                    let mut u = c.y.clone();
                    u.sort_by(|a, b| a.partial_cmp(b).unwrap());
                    u.dedup();
                    u.iter().all(|l| c.y.iter().filter(|v| *v == l).count() * 5 >= c.y.len() || c.task == "reg")
                };
                if lively {
                    break;
                }
                c = gen_case(if index % 2 == 0 { "twins-clf" } else { "twins-reg" }, index, seed ^ j.wrapping_mul(0x9E37_79B9_7F4A_7C15));
            }
            c.many = [300_000usize, 600_000, 1_100_000, 4_200_000][(index % 4) as usize];
            c.refit_same_thread = false;
            c.kind = format!("{}, many-rows-huge", c.kind);
            return c;
        }
        gen_case(batch, index, seed)
    }
    fn run(&self, case: &Case) -> Report {
        match guarded(|| {
            let mut rep = Report::default();
            self.run_inner(case, &mut rep);
            rep
        }) {
            Ok(r) => r,
            Err(msg) => {
                rand::sim::uninstall();
                let mut rep = Report::default();
                rep.fail("harness-panic", "c06", format!("harness panicked: {}", msg));
                rep
            }
        }
    }
    fn shrink(&self, case: &Case) -> Vec<Case> {
        let mut out = vec![];
        let n = case.x.len();
        let p = case.x[0].len();
        let valid = |c: &Case| -> bool {
            if c.x.len() < 2 || c.x[0].is_empty() || c.params.n_trees < 1 {
                return false;
            }
            if let Some(m) = c.params.m {
                if m < 1 || m > c.x[0].len() {
                    return false;
                }
            }
            if c.task == "clf" {
                let mut l = c.y.clone();
                l.sort_by(|a, b| a.partial_cmp(b).unwrap());
                l.dedup();
                l.len() >= 2
            } else {
                true
            }
        };
        let mut push = |c: Case| {
            if c != *case && valid(&c) {
                out.push(c);
            }
        };
        if n > 2 {
            for (a, b) in [(0, n / 2), (n / 2, n)] {
                let mut c = case.clone();
                c.x = case.x[a..b].to_vec();
                c.y = case.y[a..b].to_vec();
                push(c);
            }
            for i in (0..n).rev().take(30) {
                let mut c = case.clone();
                c.x.remove(i);
                c.y.remove(i);
                push(c);
            }
        }
        for nt in [1, case.params.n_trees / 2, case.params.n_trees.saturating_sub(1)] {
            if nt >= 1 && nt < case.params.n_trees {
                let mut c = case.clone();
                c.params.n_trees = nt;
                push(c);
            }
        }
        if !case.queries.is_empty() {
            let mut c = case.clone();
            c.queries.clear();
            c.nonfinite_cells.clear();
            push(c);
        }
        if case.pollute {
            let mut c = case.clone();
            c.pollute = false;
            push(c);
        }
        if case.refit_same_thread {
            let mut c = case.clone();
            c.refit_same_thread = false;
            push(c);
        }
        if let Some((salt, pm)) = case.std_fault {
            let mut c = case.clone();
            c.std_fault = None;
            push(c);
            if pm > 300 {
                let mut c = case.clone();
                c.std_fault = Some((salt, pm / 4));
                push(c);
            }
        }
        if case.ops.len() > 1 {
            for i in 0..case.ops.len() {
                let mut c = case.clone();
                c.ops.remove(i);
                if c.ops.contains(&0) {
                    push(c);
                }
            }
        }
        if p > 1 {
            for j in 0..p {
                let mut c = case.clone();
                for r in c.x.iter_mut().chain(c.queries.iter_mut()) {
                    r.remove(j);
                }
                if let Some(m) = c.params.m {
                    c.params.m = Some(m.min(p - 1).max(1));
                }
                push(c);
            }
        }
        if case.params.max_depth != Some(1) {
            let mut c = case.clone();
            c.params.max_depth = Some(1);
            push(c);
        }
        if case.params.min_samples_leaf != 1 {
            let mut c = case.clone();
            c.params.min_samples_leaf = 1;
            push(c);
        }
        if case.params.seed != 0 {
            let mut c = case.clone();
            c.params.seed = 0;
            push(c);
        }
        {
            let mut c = case.clone();
            for r in c.x.iter_mut() {
                for v in r.iter_mut() {
                    *v = v.round();
                }
            }
            push(c);
        }
        out
    }
    fn literalize(&self, case: &Case, _report: &Report) -> Case {
        // the forest must not consume ambient words at all; the specs are already explicit
        case.clone()
    }
    fn sample(&self, case: &Case, report: &Report) -> Value {
        json!({
            "task": case.task, "kind": case.kind, "n": case.x.len(), "p": case.x[0].len(), "params": case.params, "f32": case.f32m, "pollute": case.pollute, "call_sequence": case.ops,
            "first_rows": case.x.iter().take(2).collect::<Vec<_>>(), "first_targets": case.y.iter().take(6).collect::<Vec<_>>(),
            "ambient_a": case.ambient_a.as_ref().map(|t| json!({"seed": t.seed, "extreme_per_mille": t.extreme_pm})),
            "ambient_b": case.ambient_b.as_ref().map(|t| json!({"seed": t.seed, "extreme_per_mille": t.extreme_pm})),
            "model_digest": format!("{:016x}", report.aux_digest),
            "log_digest": format!("{:016x}", report.log_digest),
            "violation": report.violation.as_ref().map(|v| v.class.clone()),
        })
    }
    fn flaky_class(&self, class: &str) -> bool {
        // a forest whose result depends on something other than its seed fails only with some probability per run
        class == "irreproducible"
    }
    fn rule(&self) -> String {
        "cases: (explicit training set n 4..120 x p 1..6, 2..4 classes with arbitrary label values incl. single-row classes / real targets, forest parameters incl. seed in {0, 1, u64::MAX, random}, ambient-RNG specs for the two twins, pollution flag) \
         from case_seed; every run fits the same forest twice (twin B on a freshly spawned thread, after other estimators ran, under a different ambient stream). distinct_nontrivial = number of distinct (seed, serialised-model digest) among runs with \
         n_trees >= 2 that have at least one training row with an out-of-bag tree (or keep_samples off)".into()
    }
    fn state_measure(&self) -> String {
        "distinct bootstrap masks (first 8 trees of each forest with keep_samples on)".into()
    }
    fn assumptions(&self) -> Vec<String> {
        vec![
            "StdRng(seed) is NOT intercepted except in the twins-draw-faults batch: the property quantifies over seeds, so the forest sees genuine ChaCha12(seed) output; in that one batch a seeded subset of its words is replaced by boundary values, identically for every twin (the stream stays a pure function of the seed)".into(),
            "member trees are rebuilt from the forest's serde image with serde_json::from_value (no text round trip, f64 exact) and their real predict is called; bincode bytes decide bit-identity of twins".into(),
            "rows with no out-of-bag tree: the statement fixes no value for an empty aggregate, so none is demanded; what is demanded is that all such rows of one forest get the same value (an aggregate over no tree cannot depend on the row)".into(),
            "regression tolerances are relative to the actual magnitude of the targets plus a few units of the smallest subnormal; the range clause additionally allows n^2 such units (the trees derive child means from rounded parent means)".into(),
            "cross-process agreement of the serialised model is checked by the runner's process-hop on a prefix of every batch (result digest)".into(),
            "sampling, not enumeration: a clean batch is evidence, not proof".into(),
        ]
    }
    fn components(&self) -> Value {
        json!({
            "real": ["smartcore RandomForestClassifier / RandomForestRegressor (fit, predict, predict_oob, bootstrap)", "smartcore DecisionTreeClassifier / DecisionTreeRegressor (fit_weak_learner, predict)", "rand StdRng (ChaCha12) seeded by the forest's seed", "bincode / serde_json", "smartcore KMeans + KFold (history pollution only)"],
            "stub": ["ambient ThreadRng word source (simulator tape) — must stay unread by the forest", "in the twins-draw-faults batch only: a seeded subset of the forest's own StdRng output words is replaced by boundary values (seam S1b; the stream stays a pure function of seed and plan, the same plan for every twin)"]
        })
    }
}
