//! C16 — data splitting never leaks.
//!
//! Simulated: the permutation drawn from the ambient RNG by `KFold` (shuffle on) and
//! `train_test_split` (shuffle on); the estimator / scorer closures are the harness's own
//! recording parties (seam S3) which can also be told to fail (party-failure fault).

use crate::core::rng::{Digest, Xo};
use crate::core::runner::{guarded, Batch, Property, Report, Tier};
use crate::core::tape::{
    decode_shuffle, factorial, nth_permutation, words_for_permutation, TapeGuard, TapeSpec,
};
use serde::{Deserialize, Serialize};
use serde_json::{json, Value};
use smartcore::api::Predictor;
use smartcore::error::Failed;
use smartcore::linalg::naive::dense_matrix::DenseMatrix;
use smartcore::linalg::BaseMatrix;
use smartcore::math::num::RealNumber;
use smartcore::model_selection::{
    cross_val_predict, cross_validate, train_test_split, BaseKFold, KFold, KFoldIter,
};
use std::cell::RefCell;
use std::collections::BTreeSet;
use std::rc::Rc;
use std::sync::OnceLock;

#[derive(Serialize, Deserialize, Clone, Debug, PartialEq)]
pub enum Op {
    KFold,
    /// only the first `folds` pairs of an unshuffled KFold are drawn from the iterator and checked one by one
    /// (for fold counts whose full output would not fit in memory)
    KFoldHead { folds: usize },
    /// a long single-thread session around a counter boundary: the case's (n, k) split, then `filler` splits of
    /// `filler_n` rows into `filler_k` folds, then the (n, k) split again - every split judged. Lengths are chosen so
    /// that the number of calls or folds in between straddles 2^8 or 2^16 (counters narrower than usize wrap there).
    KFoldWrap { filler: usize, filler_n: usize, filler_k: usize },
    Split { test_size: f32, f32m: bool },
    CrossValPredict,
    CrossValidate,
}

#[derive(Serialize, Deserialize, Clone, Debug, PartialEq)]
pub struct Case {
    pub op: Op,
    pub n: usize,
    pub k: usize,
    pub p: usize,
    pub shuffle: bool,
    /// party-failure fault: (fold number, stage 0 = fit fails, 1 = first predict fails, 2 = second predict fails)
    pub fail_at: Option<(usize, u8)>,
    pub tape: TapeSpec,
    pub kind: String,
    /// run KFold / cross_val_predict / cross_validate on DenseMatrix<f32>
    #[serde(default)]
    pub f32m: bool,
    /// a harness-owned splitter party (seam: the `BaseKFold` trait) instead of `KFold`: explicit
    /// (train, test) index lists whose train part need NOT be the complement of the test part
    #[serde(default)]
    pub custom_folds: Option<Vec<(Vec<usize>, Vec<usize>)>>,
    /// how the KFold value is constructed: 0 = struct literal, 1 = default().with_n_splits().with_shuffle(),
    /// 2 = default().with_shuffle().with_n_splits() (the public builder API, both call orders)
    #[serde(default)]
    pub ctor: u8,
    /// matrix back end for train_test_split: 0 = DenseMatrix, 1 = ndarray (row-major), 2 = ndarray (column-major
    /// memory layout), 3 = nalgebra DMatrix, 4 = ndarray with negative strides (x and y), 5 = ndarray with stride 2
    #[serde(default)]
    pub backend: u8,
    /// what the splitter party's n_splits() reports when it is not the number of folds it hands out
    #[serde(default)]
    pub n_splits_report: Option<usize>,
    /// cross_val_predict only: the estimator party's prediction for this row id is not finite (1 = +inf, 2 = -inf,
    /// 3 = NaN) — a legitimate prediction that has to be placed like any other
    #[serde(default)]
    pub nonfinite_pred: Option<(usize, u8)>,
    /// a session: these calls are made first, on the same thread, each judged like a run of its own (hidden state that
    /// survives from one call to the next - a buffer, a cached permutation - needs a particular sequence of calls)
    #[serde(default)]
    pub prelude: Vec<Case>,
}

pub struct C16;

type SplitIds = (Vec<usize>, Vec<usize>, Vec<usize>, Vec<usize>);

/// train_test_split on any matrix back end: ids of (x_train, x_test, y_train, y_test), every row checked intact
fn split_generic<T: RealNumber, M: smartcore::linalg::Matrix<T>>(x: &M, y: &M::RowVector, ts: f32, shuffle: bool) -> Result<SplitIds, String> {
    use smartcore::linalg::BaseVector;
    let ids_m = |m: &M| -> Result<Vec<usize>, String> {
        let (r, c) = m.shape();
        let mut out = Vec::with_capacity(r);
        for i in 0..r {
            let idf = f(m.get(i, 0));
            if idf < 0.0 || idf.fract() != 0.0 {
                return Err(format!("row {} has id cell {}", i, idf));
            }
            let id = idf as usize;
            for j in 1..c {
                if !same_cell(f(m.get(i, j)), cell(id, j)) {
                    return Err(format!("row {} (id {}) column {} holds {} instead of {}", i, id, j, f(m.get(i, j)), cell(id, j)));
                }
            }
            out.push(id);
        }
        Ok(out)
    };
    let ids_v = |v: &M::RowVector| -> Result<Vec<usize>, String> {
        (0..v.len()).map(|i| g_inv(f(v.get(i))).ok_or_else(|| format!("target {} holds {} (not a target of any row)", i, f(v.get(i))))).collect()
    };
    let (xtr, xte, ytr, yte) = train_test_split(x, y, ts, shuffle);
    if xtr.shape().1 != x.shape().1 || xte.shape().1 != x.shape().1 {
        return Err(format!("parts have {} / {} columns, the input has {}", xtr.shape().1, xte.shape().1, x.shape().1));
    }
    Ok((ids_m(&xtr)?, ids_m(&xte)?, ids_v(&ytr)?, ids_v(&yte)?))
}

/// the same identity-carrying workload on the other matrix back ends the crate ships
fn split_on_backend(backend: u8, single: bool, n: usize, p: usize, ts: f32, shuffle: bool) -> Result<SplitIds, String> {
    use nalgebra::{DMatrix, RowDVector};
    use ndarray::{Array1, Array2, ShapeBuilder};
    macro_rules! go {
        ($t:ty) => {{
            let c = |i: usize, j: usize| cell(i, j) as $t;
            match backend {
                1 => split_generic::<$t, Array2<$t>>(&Array2::from_shape_fn((n, p), |(i, j)| c(i, j)), &Array1::from_shape_fn(n, |i| g(i) as $t), ts, shuffle),
                2 => split_generic::<$t, Array2<$t>>(&Array2::from_shape_fn((n, p).f(), |(i, j)| c(i, j)), &Array1::from_shape_fn(n, |i| g(i) as $t), ts, shuffle),
                // owned arrays with negative strides: built back to front, then every axis reversed
                4 => split_generic::<$t, Array2<$t>>(
                    &Array2::from_shape_fn((n, p), |(i, j)| c(n - 1 - i, p - 1 - j)).slice_move(ndarray::s![..;-1, ..;-1]),
                    &Array1::from_shape_fn(n, |i| g(n - 1 - i) as $t).slice_move(ndarray::s![..;-1]),
                    ts,
                    shuffle,
                ),
                // owned arrays with a stride of two (every second row / element of a buffer twice as long)
                5 => split_generic::<$t, Array2<$t>>(
                    &Array2::from_shape_fn((2 * n, p), |(i, j)| if i % 2 == 0 { c(i / 2, j) } else { -7.0 }).slice_move(ndarray::s![..;2, ..]),
                    &Array1::from_shape_fn(2 * n, |i| if i % 2 == 0 { g(i / 2) as $t } else { -7.0 }).slice_move(ndarray::s![..;2]),
                    ts,
                    shuffle,
                ),
                _ => split_generic::<$t, DMatrix<$t>>(&DMatrix::from_fn(n, p, |i, j| c(i, j)), &RowDVector::from_fn(n, |_, i| g(i) as $t), ts, shuffle),
            }
        }};
    }
    if single { go!(f32) } else { go!(f64) }
}


fn g(i: usize) -> f64 {
    3.0 * i as f64 + 0.25
}
fn g_inv(y: f64) -> Option<usize> {
    let t = (y - 0.25) / 3.0;
    if t >= 0.0 && t.fract() == 0.0 && t < 1e9 {
        Some(t as usize)
    } else {
        None
    }
}
/// bit-wise comparison of a cell with what the workload put there (-0.0 is not +0.0; NaN matches NaN)
fn same_cell(got: f64, want: f64) -> bool {
    (got.is_nan() && want.is_nan()) || got.to_bits() == want.to_bits()
}

fn cell(i: usize, j: usize) -> f64 {
    if j == 0 {
        i as f64
    } else if (i * 7 + j) % 11 == 3 {
        // some cells hold a negative zero, some a NaN (a missing value): a split moves rows, it does not clean them
        -0.0
    } else if (i * 5 + j) % 13 == 4 {
        f64::NAN
    } else {
        // in floating point: a corrupted id cell must not overflow the harness's own arithmetic
        i as f64 * 8.0 + j as f64 + 0.5
    }
}
const FOLD_BASE: f64 = 4096.0; // 2^12: (fold+1)*4096 + id stays exact in f32 for n, k <= 300

fn make_xy<T: RealNumber>(n: usize, p: usize) -> (DenseMatrix<T>, Vec<T>) {
    let mut v: Vec<T> = Vec::with_capacity(n * p);
    for i in 0..n {
        for j in 0..p {
            v.push(T::from_f64(cell(i, j)).unwrap());
        }
    }
    (DenseMatrix::from_array(n, p, &v), (0..n).map(|i| T::from_f64(g(i)).unwrap()).collect())
}

fn f(v: impl RealNumber) -> f64 {
    v.to_f64().unwrap_or(f64::NAN)
}

/// decode the row ids of a matrix and check that every row is an intact original row
fn ids_of<T: RealNumber>(x: &DenseMatrix<T>) -> Result<Vec<usize>, String> {
    let (r, c) = x.shape();
    let mut out = Vec::with_capacity(r);
    for i in 0..r {
        let idf = f(x.get(i, 0));
        if idf < 0.0 || idf.fract() != 0.0 {
            return Err(format!("row {} has id cell {}", i, idf));
        }
        let id = idf as usize;
        for j in 1..c {
            if !same_cell(f(x.get(i, j)), cell(id, j)) {
                return Err(format!(
                    "row {} (id {}) column {} holds {} instead of {}",
                    i,
                    id,
                    j,
                    f(x.get(i, j)),
                    cell(id, j)
                ));
            }
        }
        out.push(id);
    }
    Ok(out)
}

fn ids_of_y<T: RealNumber>(y: &[T]) -> Result<Vec<usize>, String> {
    y.iter()
        .enumerate()
        .map(|(i, v)| g_inv(f(*v)).ok_or_else(|| format!("target {} holds {} (not a target of any row)", i, f(*v))))
        .collect()
}

/// Seam S3b: a splitter party. Either the real `KFold` or explicit folds handed out verbatim.
enum Splitter {
    Real(KFold),
    Custom(Vec<(Vec<usize>, Vec<usize>)>, Option<usize>),
}

impl BaseKFold for Splitter {
    type Output = Box<dyn Iterator<Item = (Vec<usize>, Vec<usize>)>>;
    fn split<T: RealNumber, M: smartcore::linalg::Matrix<T>>(&self, x: &M) -> Self::Output {
        match self {
            Splitter::Real(k) => Box::new(k.split(x)),
            Splitter::Custom(f, _) => Box::new(f.clone().into_iter()),
        }
    }
    fn n_splits(&self) -> usize {
        match self {
            Splitter::Real(k) => k.n_splits(),
            // n_splits(&self) cannot see the data: a splitter may only report a nominal number (leave-one-out,
            // repeated k-fold); the folds that count are the ones split() hands out
            Splitter::Custom(f, reported) => reported.unwrap_or(f.len()),
        }
    }
}

#[derive(Clone, Debug)]
enum Ev {
    Fit { fold: usize, ids: Vec<usize> },
    Predict { fold: usize, ids: Vec<usize> },
    Score { y_true: Vec<f64>, y_pred: Vec<f64>, ret: f64 },
}

#[derive(Default)]
struct Hist {
    events: Vec<Ev>,
    fits: usize,
    scores: usize,
    /// first in-run invariant violation: (event seq, class, detail)
    bad: Option<(usize, &'static str, String)>,
    fired_fail: bool,
}

impl Hist {
    fn bad(&mut self, class: &'static str, d: String) {
        if self.bad.is_none() {
            self.bad = Some((self.events.len(), class, d));
        }
    }
}

struct Est<T> {
    _t: std::marker::PhantomData<T>,
    fold: usize,
    fit_ids: BTreeSet<usize>,
    /// the rows the model was fitted on, as handed over (a resampling splitter repeats rows)
    fit_list: Vec<usize>,
    hist: Rc<RefCell<Hist>>,
    predict_calls: RefCell<u8>,
    fail_predict: Option<u8>,
    allow_train_predict: bool,
    nonfinite: Option<(usize, u8)>,
}

impl<T: RealNumber> Predictor<DenseMatrix<T>, Vec<T>> for Est<T> {
    fn predict(&self, x: &DenseMatrix<T>) -> Result<Vec<T>, Failed> {
        let mut h = self.hist.borrow_mut();
        let call = {
            let mut c = self.predict_calls.borrow_mut();
            *c += 1;
            *c
        };
        let ids = match ids_of(x) {
            Ok(v) => v,
            Err(e) => {
                h.bad("row-corrupt", format!("predict of fold {}: {}", self.fold, e));
                vec![]
            }
        };
        // in-run invariant: a model never predicts a row it has seen (cross_val_predict), or
        // predicts either exactly its training rows or rows it has never seen (cross_validate)
        let idset: BTreeSet<usize> = ids.iter().copied().collect();
        let overlap = idset.intersection(&self.fit_ids).count();
        if overlap > 0 {
            let is_train_pass =
                self.allow_train_predict && ids == self.fit_list;
            if !is_train_pass {
                h.bad(
                    "leak",
                    format!(
                        "model of fold {} was asked to predict {} row(s) it was fitted on (e.g. row {})",
                        self.fold,
                        overlap,
                        idset.intersection(&self.fit_ids).next().unwrap()
                    ),
                );
            }
        }
        h.events.push(Ev::Predict {
            fold: self.fold,
            ids: ids.clone(),
        });
        if self.fail_predict == Some(call) {
            h.fired_fail = true;
            return Err(Failed::predict("injected predict failure"));
        }
        Ok(ids
            .iter()
            .map(|id| match self.nonfinite {
                Some((row, kind)) if row == *id => match kind {
                    1 => T::infinity(),
                    2 => T::neg_infinity(),
                    _ => T::nan(),
                },
                _ => T::from_f64((self.fold as f64 + 1.0) * FOLD_BASE + *id as f64).unwrap(),
            })
            .collect())
    }
}

fn decode_pred(v: f64) -> Option<(usize, usize)> {
    if v < FOLD_BASE || v.fract() != 0.0 {
        return None;
    }
    let f = (v / FOLD_BASE).floor();
    let id = v - f * FOLD_BASE;
    Some((f as usize - 1, id as usize))
}

fn fit_party<T: RealNumber>(
    hist: &Rc<RefCell<Hist>>,
    fail_at: Option<(usize, u8)>,
    allow_train_predict: bool,
    nonfinite: Option<(usize, u8)>,
) -> impl Fn(&DenseMatrix<T>, &Vec<T>, ()) -> Result<Est<T>, Failed> + '_ {
    move |x: &DenseMatrix<T>, y: &Vec<T>, _p: ()| {
        let mut h = hist.borrow_mut();
        let fold = h.fits;
        h.fits += 1;
        let idx = match ids_of(x) {
            Ok(v) => v,
            Err(e) => {
                h.bad("row-corrupt", format!("fit of fold {}: {}", fold, e));
                vec![]
            }
        };
        match ids_of_y(y) {
            Ok(idy) => {
                if idy != idx {
                    h.bad(
                        "xy-misaligned",
                        format!("fit of fold {}: rows {:?} came with targets of rows {:?}", fold, clip(&idx), clip(&idy)),
                    );
                }
            }
            Err(e) => h.bad("y-corrupt", format!("fit of fold {}: {}", fold, e)),
        }
        h.events.push(Ev::Fit {
            fold,
            ids: idx.clone(),
        });
        let mut fail_predict = None;
        if let Some((ff, stage)) = fail_at {
            if ff == fold {
                if stage == 0 {
                    h.fired_fail = true;
                    return Err(Failed::fit("injected fit failure"));
                }
                fail_predict = Some(stage);
            }
        }
        Ok(Est {
            _t: std::marker::PhantomData,
            fold,
            fit_ids: idx.iter().copied().collect(),
            fit_list: idx,
            hist: hist.clone(),
            predict_calls: RefCell::new(0),
            fail_predict,
            allow_train_predict,
            nonfinite,
        })
    }
}

fn make_kfold(k: usize, shuffle: bool, ctor: u8) -> KFold {
    match ctor % 3 {
        0 => KFold { n_splits: k, shuffle },
        1 => KFold::default().with_n_splits(k).with_shuffle(shuffle),
        _ => KFold::default().with_shuffle(shuffle).with_n_splits(k),
    }
}

fn clip(v: &[usize]) -> Vec<usize> {
    v.iter().take(12).copied().collect()
}

/// The partition oracle shared by all k-fold based operations.
/// `tests[f]` are the held-out ids of fold f, `trains[f]` the ids the fold's model saw.
fn check_folds(
    n: usize,
    k: usize,
    shuffle: bool,
    trains: &[Vec<usize>],
    tests: &[Vec<usize>],
) -> Result<(), (&'static str, String)> {
    if tests.len() != k || trains.len() != k {
        return Err(("fold-count", format!("expected {} folds, got {} train / {} test sets", k, trains.len(), tests.len())));
    }
    let mut seen = vec![usize::MAX; n];
    let mut min_sz = usize::MAX;
    let mut max_sz = 0;
    for (f, t) in tests.iter().enumerate() {
        min_sz = min_sz.min(t.len());
        max_sz = max_sz.max(t.len());
        for &i in t {
            if i >= n {
                return Err(("index-range", format!("fold {} test index {} >= n = {}", f, i, n)));
            }
            if seen[i] != usize::MAX {
                return Err((
                    "test-overlap",
                    format!("row {} is held out by fold {} and by fold {}", i, seen[i], f),
                ));
            }
            seen[i] = f;
        }
    }
    if let Some(i) = seen.iter().position(|f| *f == usize::MAX) {
        return Err(("test-cover", format!("row {} is held out by no fold (n={}, k={})", i, n, k)));
    }
    if max_sz - min_sz > 1 {
        return Err((
            "fold-size",
            format!("test set sizes range from {} to {} (n={}, k={})", min_sz, max_sz, n, k),
        ));
    }
    for (f, tr) in trains.iter().enumerate() {
        let mut mark = vec![false; n];
        for &i in tr {
            if i >= n {
                return Err(("index-range", format!("fold {} train index {} >= n = {}", f, i, n)));
            }
            if mark[i] {
                return Err(("train-dup", format!("fold {} train set holds row {} twice", f, i)));
            }
            mark[i] = true;
            if seen[i] == f {
                return Err(("leak", format!("row {} is in both the train and the test set of fold {}", i, f)));
            }
        }
        if tr.len() != n - tests[f].len() {
            let missing = (0..n).find(|i| !mark[*i] && seen[*i] != f);
            return Err((
                "train-not-complement",
                format!(
                    "fold {} train set has {} rows, complement of its test set has {} (e.g. row {:?} missing)",
                    f,
                    tr.len(),
                    n - tests[f].len(),
                    missing
                ),
            ));
        }
    }
    if !shuffle {
        for (f, t) in tests.iter().enumerate() {
            let mut s = t.clone();
            s.sort_unstable();
            if !s.is_empty() && s[s.len() - 1] - s[0] + 1 != s.len() {
                return Err((
                    "not-consecutive",
                    format!("shuffle off but fold {} test set {:?} is not a consecutive block", f, clip(&s)),
                ));
            }
        }
    }
    Ok(())
}

fn partition_digest(n: usize, tests: &[Vec<usize>]) -> u64 {
    let mut a = vec![0usize; n];
    for (f, t) in tests.iter().enumerate() {
        for &i in t {
            if i < n {
                a[i] = f + 1;
            }
        }
    }
    let mut d = Digest::new();
    d.usizes(&a);
    d.get()
}

struct Small {
    cases: Vec<Case>,
}

fn forced_small() -> &'static Small {
    static S: OnceLock<Small> = OnceLock::new();
    S.get_or_init(|| {
        let mut cases = vec![];
        for n in 2..=6usize {
            for pi in 0..factorial(n) {
                let perm = nth_permutation(n, pi);
                let words = words_for_permutation(&perm);
                for k in 2..=n {
                    for op in [Op::KFold, Op::CrossValPredict, Op::CrossValidate] {
                        cases.push(Case {
                            op,
                            n,
                            k,
                            p: 2,
                            shuffle: true,
                            fail_at: None,
                            tape: TapeSpec::prng(1).with_prefix(words.clone()),
                            kind: "forced-permutation".into(),
                            f32m: pi % 3 == 1,
                            custom_folds: None,
                            ctor: (pi % 3) as u8,
                            backend: 0,
                            n_splits_report: None,
                            nonfinite_pred: None,
                            prelude: vec![],
                        });
                    }
                }
                for nt in 1..=n {
                    // a test_size that yields exactly nt test rows in f32
                    let ts = ((nt as f32) + 0.25) / n as f32;
                    let ts = if ts > 1.0 { 1.0 } else { ts };
                    cases.push(Case {
                        op: Op::Split { test_size: ts, f32m: nt % 2 == 0 },
                        n,
                        k: 2,
                        p: 2,
                        shuffle: true,
                        fail_at: None,
                        tape: TapeSpec::prng(1).with_prefix(words.clone()),
                        kind: "forced-permutation".into(),
                        f32m: false,
                        custom_folds: None,
                        ctor: 0,
                        backend: ((pi as usize + nt) % 6) as u8,
                        n_splits_report: None,
                        nonfinite_pred: None,
                        prelude: vec![],
                    });
                }
            }
        }
        Small { cases }
    })
}

fn split_boundaries() -> &'static Vec<(usize, usize, u8)> {
    static S: OnceLock<Vec<(usize, usize, u8)>> = OnceLock::new();
    S.get_or_init(|| {
        let mut v = vec![];
        for n in 1..=64usize {
            for k in 1..=n {
                for which in 0..3u8 {
                    v.push((n, k, which));
                }
            }
        }
        v
    })
}

fn noshuffle_pairs() -> &'static Vec<(usize, usize)> {
    static S: OnceLock<Vec<(usize, usize)>> = OnceLock::new();
    S.get_or_init(|| {
        let mut v = vec![];
        for n in 2..=64usize {
            for k in 2..=n {
                v.push((n, k));
            }
        }
        v
    })
}

const TEST_SIZES: [f32; 16] = [
    0.01, 0.05, 0.1, 0.15, 0.2, 0.25, 0.3, 1.0 / 3.0, 0.4, 0.5, 0.6, 2.0 / 3.0, 0.75, 0.9, 0.99, 1.0,
];

fn structured_perm(n: usize, which: u64, r: &mut Xo) -> Vec<usize> {
    let mut v: Vec<usize> = (0..n).collect();
    match which % 6 {
        0 => {}                       // identity
        1 => v.reverse(),             // reverse
        2 => v.rotate_left(1 % n.max(1)), // rotation by one
        3 => {
            let s = r.below(n as u64) as usize;
            v.rotate_left(s)
        }
        4 => {
            // parity sorted: evens then odds
            let mut e: Vec<usize> = (0..n).filter(|i| i % 2 == 0).collect();
            e.extend((0..n).filter(|i| i % 2 == 1));
            v = e;
        }
        _ => {
            // one adjacent swap
            if n >= 2 {
                let i = r.below(n as u64 - 1) as usize;
                v.swap(i, i + 1);
            }
        }
    }
    v
}

impl C16 {
    fn run_inner<T: RealNumber>(&self, case: &Case, rep: &mut Report) {
        let n = case.n;
        let k = case.k;
        let (x, y) = make_xy::<T>(n, case.p);
        let guard = TapeGuard::install(&case.tape);
        let mut d = Digest::new();
        d.str(&format!("{:?}", case.op)).usize(n).usize(k).usize(case.p).u64(case.shuffle as u64);
        let mut tests_for_state: Option<Vec<Vec<usize>>> = None;

        match &case.op {
            Op::KFold => {
                let cv = make_kfold(k, case.shuffle, case.ctor);
                let res = guarded(|| {
                    let ns = cv.n_splits();
                    let pairs: Vec<(Vec<usize>, Vec<usize>)> = cv.split(&x).collect();
                    (ns, pairs)
                });
                match res {
                    Err(msg) => rep.fail("panic", "kfold-split", format!("KFold::split panicked: {}", msg)),
                    Ok((ns, pairs)) => {
                        rep.count("steps.folds", pairs.len() as u64);
                        if ns != k {
                            rep.fail("n-splits", "kfold", format!("n_splits() = {} for k = {}", ns, k));
                        }
                        let trains: Vec<Vec<usize>> = pairs.iter().map(|p| p.0.clone()).collect();
                        let tests: Vec<Vec<usize>> = pairs.iter().map(|p| p.1.clone()).collect();
                        for (tr, te) in &pairs {
                            d.usizes(tr).usizes(te);
                        }
                        if let Err((c, m)) = check_folds(n, k, case.shuffle, &trains, &tests) {
                            rep.fail(c, "kfold", format!("KFold(n={}, k={}, shuffle={}): {}", n, k, case.shuffle, m));
                        }
                        // iterator protocol: advancing the splitter's iterator with nth / skip / step_by must yield the
                        // same folds as next() does. The same words are served again to every fresh split() call.
                        if rep.violation.is_none() && pairs.len() >= 2 {
                            let fresh = |f: &dyn Fn(KFoldIter) -> Vec<(Vec<usize>, Vec<usize>)>| {
                                rand::sim::uninstall();
                                let g2 = TapeGuard::install(&case.tape);
                                let out = guarded(|| f(cv.split(&x)));
                                g2.dismiss(); // the outer guard uninstalls on drop
                                out
                            };
                            let j = (case.tape.seed % pairs.len() as u64) as usize;
                            let checks: Vec<(&str, Result<Vec<(Vec<usize>, Vec<usize>)>, String>, Vec<(Vec<usize>, Vec<usize>)>)> = vec![
                                ("nth", fresh(&|mut it| it.nth(j).into_iter().collect()), vec![pairs[j].clone()]),
                                ("skip(1)", fresh(&|it| it.skip(1).collect()), pairs[1..].to_vec()),
                                ("step_by(2)", fresh(&|it| it.step_by(2).collect()), pairs.iter().step_by(2).cloned().collect()),
                            ];
                            // the consuming adaptors a custom iterator may override as well: last, count, fold, and the
                            // position after nth (the rest must continue with the following fold)
                            let mut checks = checks;
                            checks.push(("last", fresh(&|it| it.last().into_iter().collect()), vec![pairs[pairs.len() - 1].clone()]));
                            checks.push(("skip(j).last", fresh(&|it| it.skip(j).last().into_iter().collect()), vec![pairs[pairs.len() - 1].clone()]));
                            checks.push(("fold", fresh(&|it| it.fold(vec![], |mut acc, p| { acc.push(p); acc })), pairs.clone()));
                            checks.push(("nth-then-rest", fresh(&|mut it| { let _ = it.nth(j); it.collect() }), pairs[j + 1..].to_vec()));
                            checks.push(("peekable", fresh(&|it| { let mut pk = it.peekable(); let _ = pk.peek(); pk.collect() }), pairs.clone()));
                            let counted = { rand::sim::uninstall(); let g2 = TapeGuard::install(&case.tape); let r = guarded(|| { let it = cv.split(&x); let hint = it.size_hint(); (hint, it.count()) }); g2.dismiss(); r };
                            match counted {
                                Err(msg) => rep.fail("panic", "kfold-iterator", format!("KFold(n={}, k={}).split().count() panicked: {}", n, k, msg)),
                                Ok(((lo, hi), cnt)) => {
                                    if cnt != pairs.len() || lo > pairs.len() || hi.map(|h| h < pairs.len()).unwrap_or(false) {
                                        rep.fail("iterator-protocol", "kfold-iterator", format!("KFold(n={}, k={}, shuffle={}): split() has size_hint ({}, {:?}) and count() = {} but next() yields {} folds", n, k, case.shuffle, lo, hi, cnt, pairs.len()));
                                    }
                                }
                            }
                            for (what, got, want) in checks {
                                match got {
                                    Err(msg) => rep.fail("panic", "kfold-iterator", format!("KFold(n={}, k={}).split().{} panicked: {}", n, k, what, msg)),
                                    Ok(g) => {
                                        if g != want {
                                            rep.fail(
                                                "iterator-protocol",
                                                "kfold-iterator",
                                                format!("KFold(n={}, k={}, shuffle={}): split().{} yields test sets {:?} but next() yields {:?} for the same draw", n, k, case.shuffle, what, g.iter().map(|p| clip(&p.1)).collect::<Vec<_>>(), want.iter().map(|p| clip(&p.1)).collect::<Vec<_>>()),
                                            );
                                        }
                                    }
                                }
                            }
                        }
                        // a live iterator that changes threads: created on one fresh helper thread (after 0..2 splits of its
                        // own there), consumed on another fresh helper thread that has run 1..2 different splits of its own.
                        // KFoldIter is Send; whatever it needs must travel with it. (Both threads are fresh on purpose:
                        // per-thread counters and scratch state of the two sides then sit in the same low range.)
                        if rep.violation.is_none() && case.tape.seed % 8 == 0 {
                            let sd = case.tape.seed;
                            let spec_a = TapeSpec::prng(sd ^ 0x6d69_6772_6174_6564);
                            let spec_b = TapeSpec::prng(sd ^ 0x636f_6e73_756d_6572);
                            let (wa, wb) = ((sd / 8 % 3) as usize, 1 + (sd / 24 % 2) as usize);
                            let n2 = 2 + (sd / 11 % 30) as usize;
                            let k2 = (2 + (sd / 13 % 5) as usize).min(n2);
                            let (x2, _) = make_xy::<T>(n2, 1);
                            let out = guarded(|| {
                                std::thread::scope(|sc| {
                                    // (everything is lent to ONE other thread at a time while this thread waits in join; no Send / Sync
                                    // bound is demanded from the splitter or its iterator - a changed tree may drop them, and the
                                    // harness must still compile against it)
                                    struct Lend<P>(P);
                                    unsafe impl<P> Send for Lend<P> {}
                                    let la = Lend((&x2 as *const DenseMatrix<T>, &x as *const DenseMatrix<T>, &cv as *const KFold, &spec_a as *const TapeSpec));
                                    let it = sc
                                        .spawn(move || {
                                            let l = la;
                                            let (x2a, xa, cva, spec_ar) = unsafe { (&*(l.0).0, &*(l.0).1, &*(l.0).2, &*(l.0).3) };
                                            let g = TapeGuard::install(spec_ar);
                                            for _ in 0..wa {
                                                let _: Vec<(Vec<usize>, Vec<usize>)> = make_kfold(k2, true, 0).split(x2a).collect();
                                            }
                                            let it = cva.split(xa);
                                            drop(g);
                                            Lend(it)
                                        })
                                        .join()
                                        .map_err(|_| "creating thread panicked".to_string())?;
                                    let lb = Lend((&x2 as *const DenseMatrix<T>, &spec_b as *const TapeSpec));
                                    sc.spawn(move || {
                                        let l = lb;
                                        let it = it;
                                        let (x2r, spec_br) = unsafe { (&*(l.0).0, &*(l.0).1) };
                                        let g = TapeGuard::install(spec_br);
                                        for _ in 0..wb {
                                            let _: Vec<(Vec<usize>, Vec<usize>)> = make_kfold(k2, true, 1).split(x2r).collect();
                                        }
                                        let f: Vec<(Vec<usize>, Vec<usize>)> = it.0.collect();
                                        drop(g);
                                        f
                                    })
                                    .join()
                                    .map_err(|_| "consuming thread panicked".to_string())
                                })
                            });
                            rep.count("fault.split-iterator-migrated-between-threads", 1);
                            match out {
                                Ok(Ok(f)) => {
                                    let tr: Vec<Vec<usize>> = f.iter().map(|p| p.0.clone()).collect();
                                    let te: Vec<Vec<usize>> = f.iter().map(|p| p.1.clone()).collect();
                                    for (t1, t2) in f.iter() {
                                        d.usizes(t1).usizes(t2);
                                    }
                                    if let Err((c, m)) = check_folds(n, k, case.shuffle, &tr, &te) {
                                        rep.fail(c, "kfold-migrated", format!("KFold(n={}, k={}, shuffle={}): iterator created on one thread (after {} other splits there) and consumed on another (after {} splits of n={}, k={} there): {}", n, k, case.shuffle, wa, wb, n2, k2, m));
                                    }
                                }
                                Ok(Err(e)) => rep.fail("panic", "kfold-iterator", format!("KFold(n={}, k={}, shuffle={}): iterator created on one thread and consumed on another: {}", n, k, case.shuffle, e)),
                                Err(msg) => rep.fail("panic", "kfold-iterator", format!("KFold(n={}, k={}, shuffle={}): iterator created on one thread and consumed on another panicked: {}", n, k, case.shuffle, msg)),
                            }
                        }
                        // two live iterators advanced in an interleaved order (nested cross-validation: an inner split runs
                        // while the outer iterator is still alive). The interleaving is a schedule drawn from the case seed;
                        // each iterator must still hand out a proper partition of its own rows.
                        if rep.violation.is_none() {
                            let sd = case.tape.seed;
                            let n2 = if sd % 3 == 0 { n } else { 2 + (sd / 3 % 40) as usize };
                            let k2 = (2 + (sd / 7 % 6) as usize).min(n2);
                            let shuffle2 = sd % 10 < 7;
                            let (x2, _) = make_xy::<T>(n2, 1);
                            let cv2 = make_kfold(k2, shuffle2, (sd % 3) as u8);
                            let res = guarded(|| {
                                let mut a = cv.split(&x);
                                let mut b = cv2.split(&x2);
                                let (mut fa, mut fb) = (vec![], vec![]);
                                let (mut a_done, mut b_done) = (false, false);
                                let mut bits = sd | 1;
                                let mut steps = 0u64;
                                while !(a_done && b_done) && steps < 1_000_000 {
                                    let pick_a = if a_done { false } else if b_done { true } else { bits & 1 == 0 };
                                    bits = bits.rotate_right(1) ^ (steps.wrapping_mul(0x9E37_79B9_7F4A_7C15) >> 60);
                                    steps += 1;
                                    if pick_a {
                                        match a.next() { Some(p) => fa.push(p), None => a_done = true }
                                    } else {
                                        match b.next() { Some(p) => fb.push(p), None => b_done = true }
                                    }
                                }
                                (fa, fb)
                            });
                            rep.count("fault.interleaved-split-iterators", 1);
                            match res {
                                Err(msg) => rep.fail("panic", "kfold-iterator", format!("two interleaved KFold iterators (n={}, k={}, shuffle={} / n={}, k={}, shuffle={}) panicked: {}", n, k, case.shuffle, n2, k2, shuffle2, msg)),
                                Ok((fa, fb)) => {
                                    for (which, nn, kk, sh, f) in [("first", n, k, case.shuffle, &fa), ("second", n2, k2, shuffle2, &fb)] {
                                        let tr: Vec<Vec<usize>> = f.iter().map(|p| p.0.clone()).collect();
                                        let te: Vec<Vec<usize>> = f.iter().map(|p| p.1.clone()).collect();
                                        for (t1, t2) in f.iter() {
                                            d.usizes(t1).usizes(t2);
                                        }
                                        if let Err((c, m)) = check_folds(nn, kk, sh, &tr, &te) {
                                            rep.fail(c, "kfold-interleaved", format!("the {} of two interleaved KFold iterators (n={}, k={}, shuffle={} / n={}, k={}, shuffle={}): {}", which, n, k, case.shuffle, n2, k2, shuffle2, m));
                                            break;
                                        }
                                    }
                                }
                            }
                        }
                        tests_for_state = Some(tests);
                    }
                }
            }
            Op::KFoldWrap { filler, filler_n, filler_k } => {
                let cv = make_kfold(k, case.shuffle, case.ctor);
                let (xf, _) = make_xy::<T>(*filler_n, 1);
                let cvf = make_kfold(*filler_k, case.shuffle, case.ctor);
                let res = guarded(|| -> Result<u64, (&'static str, String)> {
                    let judge = |nn: usize, kk: usize, pairs: Vec<(Vec<usize>, Vec<usize>)>, what: &str| -> Result<(), (&'static str, String)> {
                        let tr: Vec<Vec<usize>> = pairs.iter().map(|p| p.0.clone()).collect();
                        let te: Vec<Vec<usize>> = pairs.iter().map(|p| p.1.clone()).collect();
                        check_folds(nn, kk, case.shuffle, &tr, &te).map_err(|(c, m)| (c, format!("{}: {}", what, m)))
                    };
                    let mut folds = 0u64;
                    let first: Vec<_> = cv.split(&x).collect();
                    folds += first.len() as u64;
                    judge(n, k, first, "the first split of the session")?;
                    for j in 0..*filler {
                        let f: Vec<_> = cvf.split(&xf).collect();
                        folds += f.len() as u64;
                        judge(*filler_n, *filler_k, f, &format!("split {} of {} in between (n={}, k={})", j + 1, filler, filler_n, filler_k))?;
                    }
                    let last: Vec<_> = cv.split(&x).collect();
                    folds += last.len() as u64;
                    judge(n, k, last, &format!("the same split again after {} splits ({} folds) on this thread", filler, folds))?;
                    Ok(folds)
                });
                rep.count("fault.long-session-around-counter-boundary", 1);
                match res {
                    Err(msg) => rep.fail("panic", "kfold-split", format!("KFold session (n={}, k={}, {} x (n={}, k={}) in between) panicked: {}", n, k, filler, filler_n, filler_k, msg)),
                    Ok(Err((c, m))) => rep.fail(c, "kfold-session", format!("KFold session (n={}, k={}, shuffle={}, {} x (n={}, k={}) in between): {}", n, k, case.shuffle, filler, filler_n, filler_k, m)),
                    Ok(Ok(folds)) => {
                        rep.count("steps.folds", folds);
                        d.u64(folds);
                    }
                }
            }
            Op::KFoldHead { folds } => {
                let cv = make_kfold(k, false, case.ctor);
                let res = guarded(|| -> Result<u64, (&'static str, String)> {
                    if cv.n_splits() != k {
                        return Err(("n-splits", format!("n_splits() = {} for k = {}", cv.n_splits(), k)));
                    }
                    let (lo, hi) = (n / k, (n + k - 1) / k);
                    let mut next_start = 0usize;
                    let mut seen = 0u64;
                    let mut dd = Digest::new();
                    for (j, (tr, te)) in cv.split(&x).take(*folds).enumerate() {
                        seen += 1;
                        if te.len() < lo || te.len() > hi || te.is_empty() {
                            return Err(("test-size", format!("fold {}: test set has {} indices, expected {}..{}", j, te.len(), lo, hi)));
                        }
                        if te.iter().enumerate().any(|(a, i)| *i != next_start + a) {
                            return Err(("not-consecutive", format!("fold {}: test set {:?} is not the block starting at {}", j, clip(&te), next_start)));
                        }
                        let (b0, b1) = (next_start, next_start + te.len());
                        next_start = b1;
                        if tr.len() != n - te.len() {
                            return Err(("train-not-complement", format!("fold {}: train set has {} indices, the complement of the test set has {}", j, tr.len(), n - te.len())));
                        }
                        let mut mask = vec![false; n];
                        for &i in &tr {
                            if i >= n || (i >= b0 && i < b1) || mask[i] {
                                return Err(("train-not-complement", format!("fold {}: train index {} is out of range, held out, or repeated", j, i)));
                            }
                            mask[i] = true;
                        }
                        dd.usize(te[0]).usize(te.len()).usize(tr.len());
                    }
                    if seen != (*folds).min(k) as u64 {
                        return Err(("fold-count", format!("iterator ended after {} folds", seen)));
                    }
                    Ok(dd.get())
                });
                match res {
                    Err(msg) => rep.fail("panic", "kfold-split", format!("KFold(n={}, k={}).split() panicked: {}", n, k, msg)),
                    Ok(Err((c, m))) => rep.fail(c, "kfold", format!("KFold(n={}, k={}, shuffle=false), first {} folds: {}", n, k, folds, m)),
                    Ok(Ok(dg)) => {
                        d.u64(dg);
                        rep.count("steps.folds", (*folds).min(k) as u64);
                    }
                }
            }
            Op::Split { test_size, f32m } => {
                let ts = *test_size;
                let n_test = ((n as f32) * ts) as usize;
                let _ = f32m; // the element type is chosen by the dispatcher in run()
                let res = guarded(|| -> Result<(Vec<usize>, Vec<usize>, Vec<usize>, Vec<usize>), String> {
                    if case.backend != 0 {
                        return split_on_backend(case.backend, *f32m, n, case.p, ts, case.shuffle);
                    }
                    let (xtr, xte, ytr, yte) = train_test_split(&x, &y, ts, case.shuffle);
                    Ok((ids_of(&xtr)?, ids_of(&xte)?, ids_of_y(&ytr)?, ids_of_y(&yte)?))
                });
                rep.count(match case.backend { 0 => "steps.split-dense", 1 => "steps.split-ndarray-row-major", 2 => "steps.split-ndarray-column-major", 3 => "steps.split-nalgebra", 4 => "steps.split-ndarray-negative-strides", _ => "steps.split-ndarray-stride-2" }, 1);
                match res {
                    Err(msg) => rep.fail("panic", "train-test-split", format!("train_test_split(n={}, test_size={}) panicked: {}", n, ts, msg)),
                    Ok(Err(e)) => rep.fail("row-corrupt", "train-test-split", format!("train_test_split(n={}, test_size={}, backend={}): {}", n, ts, ["DenseMatrix", "ndarray", "ndarray(column-major)", "nalgebra", "ndarray(negative strides)", "ndarray(stride 2)"][(case.backend % 6) as usize], e)),
                    Ok(Ok((xtr, xte, ytr, yte))) => {
                        d.usizes(&xtr).usizes(&xte).usizes(&ytr).usizes(&yte);
                        let ctx = format!("train_test_split(n={}, test_size={}, shuffle={}, f32={}, backend={})", n, ts, case.shuffle, f32m, ["DenseMatrix", "ndarray", "ndarray(column-major)", "nalgebra", "ndarray(negative strides)", "ndarray(stride 2)"][(case.backend % 6) as usize]);
                        if xtr != ytr || xte != yte {
                            rep.fail("xy-misaligned", "train-test-split", format!("{}: x rows {:?}/{:?} came with targets of rows {:?}/{:?}", ctx, clip(&xtr), clip(&xte), clip(&ytr), clip(&yte)));
                        }
                        if xte.len() != n_test {
                            rep.fail("test-size", "train-test-split", format!("{}: test part has {} rows, expected {}", ctx, xte.len(), n_test));
                        }
                        let mut seen = vec![0u8; n];
                        for &i in xtr.iter().chain(xte.iter()) {
                            if i >= n {
                                rep.fail("index-range", "train-test-split", format!("{}: row id {} >= n", ctx, i));
                            } else {
                                seen[i] += 1;
                            }
                        }
                        if let Some(i) = seen.iter().position(|c| *c != 1) {
                            rep.fail(
                                if seen[i] == 0 { "row-lost" } else { "leak" },
                                "train-test-split",
                                format!("{}: row {} appears {} times in train+test", ctx, i, seen[i]),
                            );
                        }
                        if !case.shuffle && xte != (0..n_test.min(n)).collect::<Vec<_>>() {
                            rep.fail("not-leading", "train-test-split", format!("{}: shuffle off but test part is rows {:?}", ctx, clip(&xte)));
                        }
                        tests_for_state = Some(vec![xte, xtr]);
                    }
                }
            }
            Op::CrossValPredict | Op::CrossValidate => {
                let is_cv = case.op == Op::CrossValidate;
                let hist = Rc::new(RefCell::new(Hist::default()));
                let cvk = match &case.custom_folds {
                    Some(f) => Splitter::Custom(f.clone(), case.n_splits_report),
                    None => Splitter::Real(make_kfold(k, case.shuffle, case.ctor)),
                };
                let k = case.custom_folds.as_ref().map(|f| f.len()).unwrap_or(k);
                enum Out {
                    Pred(Result<Vec<f64>, Failed>),
                    Scores(Result<(Vec<f64>, Vec<f64>), Failed>),
                }
                let res = guarded(|| {
                    if is_cv {
                        let score = |a: &Vec<T>, b: &Vec<T>| -> T {
                            let mut h = hist.borrow_mut();
                            h.scores += 1;
                            let ret = h.scores as f64 + 0.5;
                            h.events.push(Ev::Score { y_true: a.iter().map(|v| f(*v)).collect(), y_pred: b.iter().map(|v| f(*v)).collect(), ret });
                            T::from_f64(ret).unwrap()
                        };
                        Out::Scores(
                            cross_validate(fit_party::<T>(&hist, case.fail_at, true, None), &x, &y, (), cvk, score)
                                .map(|r| (r.train_score.iter().map(|v| f(*v)).collect(), r.test_score.iter().map(|v| f(*v)).collect())),
                        )
                    } else {
                        Out::Pred(cross_val_predict(fit_party::<T>(&hist, case.fail_at, false, case.nonfinite_pred), &x, &y, (), cvk).map(|v| v.iter().map(|z| f(*z)).collect()))
                    }
                });
                let h = hist.borrow();
                let opname = if is_cv { "cross_validate" } else { "cross_val_predict" };
                let ctx = format!("{}(n={}, k={}, shuffle={})", opname, n, k, case.shuffle);
                // history digest
                for e in &h.events {
                    match e {
                        Ev::Fit { fold, ids } => { d.u64(1).usize(*fold).usizes(ids); }
                        Ev::Predict { fold, ids } => { d.u64(2).usize(*fold).usizes(ids); }
                        Ev::Score { y_true, y_pred, ret } => { d.u64(3).f64s(y_true).f64s(y_pred).f64(*ret); }
                    }
                }
                rep.count("steps.fits", h.fits as u64);
                rep.count("steps.predicts", h.events.iter().filter(|e| matches!(e, Ev::Predict { .. })).count() as u64);
                rep.count("steps.scores", h.scores as u64);
                rep.count("steps.folds", h.fits as u64);
                if h.fired_fail {
                    rep.count("fault.party-failure", 1);
                }
                // in-run invariants hold with and without faults
                if let Some((seq, class, msg)) = &h.bad {
                    rep.fail(class, opname, format!("{}: at history event {}: {}", ctx, seq, msg));
                }
                match res {
                    Err(msg) => rep.fail("panic", opname, format!("{} panicked: {}", ctx, msg)),
                    Ok(out) => {
                        let failed = match &out {
                            Out::Pred(r) => r.is_err(),
                            Out::Scores(r) => r.is_err(),
                        };
                        if failed {
                            if h.fired_fail {
                                rep.count("probe.error-propagated", 1);
                            } else {
                                rep.fail("spurious-error", opname, format!("{}: returned Err although no party failed", ctx));
                            }
                        } else {
                            // complete history: per fold train ids, held-out ids
                            let mut trains: Vec<Vec<usize>> = vec![];
                            let mut preds: Vec<Vec<Vec<usize>>> = vec![];
                            for e in &h.events {
                                match e {
                                    Ev::Fit { ids, .. } => {
                                        trains.push(ids.clone());
                                        preds.push(vec![]);
                                    }
                                    Ev::Predict { fold, ids } => {
                                        if *fold < preds.len() {
                                            preds[*fold].push(ids.clone());
                                        }
                                    }
                                    _ => {}
                                }
                            }
                            // held-out ids of fold f = the predict call that is not the training pass
                            let mut tests: Vec<Vec<usize>> = vec![];
                            let mut ok = true;
                            for f in 0..trains.len() {
                                let trainset: BTreeSet<usize> = trains[f].iter().copied().collect();
                                let held: Vec<&Vec<usize>> = preds[f]
                                    .iter()
                                    .filter(|p| !(is_cv && p.len() == trains[f].len() && p.iter().copied().collect::<BTreeSet<_>>() == trainset))
                                    .collect();
                                if held.len() != 1 {
                                    rep.fail(
                                        "held-out-pass",
                                        opname,
                                        format!("{}: fold {} had {} held-out prediction passes (predict calls: {}), expected exactly 1", ctx, f, held.len(), preds[f].len()),
                                    );
                                    ok = false;
                                    break;
                                }
                                if is_cv && preds[f].len() != 2 {
                                    rep.fail("held-out-pass", opname, format!("{}: fold {} had {} predict calls, expected train pass + held-out pass", ctx, f, preds[f].len()));
                                    ok = false;
                                    break;
                                }
                                tests.push(held[0].clone());
                            }
                            if ok {
                                if let Some(cf) = &case.custom_folds {
                                    // the splitter party's folds must be used verbatim
                                    if trains.len() != cf.len() {
                                        rep.fail("fold-count", opname, format!("{}: {} models fitted for {} folds of the splitter", ctx, trains.len(), cf.len()));
                                    }
                                    // every fold of the splitter is used by exactly one model, verbatim (train list and test list as
                                    // handed out); in which order the folds are visited is not stated by the property
                                    let mut used = vec![false; trains.len()];
                                    for (fi, (ctr, cte)) in cf.iter().enumerate() {
                                        match (0..trains.len()).find(|m| !used[*m] && &trains[*m] == ctr && &tests[*m] == cte) {
                                            Some(m) => used[m] = true,
                                            None => {
                                                // say what is wrong with the closest candidate: a model with this fold's test rows but other training rows, or the reverse
                                                if let Some(m) = (0..trains.len()).find(|m| !used[*m] && &tests[*m] == cte) {
                                                    rep.fail("train-not-splitter-train", opname, format!("{}: fold {}: the splitter handed out training rows {:?} but the model that predicted its test rows was fitted on {:?}", ctx, fi, clip(ctr), clip(&trains[m])));
                                                } else if let Some(m) = (0..trains.len()).find(|m| !used[*m] && &trains[*m] == ctr) {
                                                    rep.fail("test-not-splitter-test", opname, format!("{}: fold {}: the splitter handed out test rows {:?} but the model fitted on its training rows predicted {:?}", ctx, fi, clip(cte), clip(&tests[m])));
                                                } else {
                                                    rep.fail("train-not-splitter-train", opname, format!("{}: fold {} of the splitter (training rows {:?}, test rows {:?}) was used by no model", ctx, fi, clip(ctr), clip(cte)));
                                                }
                                                break;
                                            }
                                        }
                                    }
                                } else if let Err((c, m)) = check_folds(n, k, case.shuffle, &trains, &tests) {
                                    rep.fail(c, opname, format!("{}: {}", ctx, m));
                                }
                                match &out {
                                    Out::Pred(Ok(yhat)) => {
                                        d.f64s(yhat);
                                        if yhat.len() != n {
                                            rep.fail("result-shape", opname, format!("{}: {} predictions for {} rows", ctx, yhat.len(), n));
                                        }
                                        for (i, v) in yhat.iter().enumerate() {
                                            if case.custom_folds.is_some() && !tests.iter().any(|t| t.contains(&i)) {
                                                continue; // row held out by no fold of the splitter party
                                            }
                                            if let Some((row, kind)) = case.nonfinite_pred {
                                                if row == i {
                                                    let ok = match kind { 1 => *v == f64::INFINITY, 2 => *v == f64::NEG_INFINITY, _ => v.is_nan() };
                                                    if !ok {
                                                        rep.fail("prediction-misplaced", opname, format!("{}: the estimator predicted a non-finite value (kind {}) for row {}, position {} holds {}", ctx, kind, i, i, v));
                                                        break;
                                                    }
                                                    rep.count("fault.non-finite-prediction", 1);
                                                    continue;
                                                }
                                            }
                                            match decode_pred(*v) {
                                                None => {
                                                    rep.fail("prediction-missing", opname, format!("{}: position {} holds {} (no held-out prediction was placed there)", ctx, i, v));
                                                    break;
                                                }
                                                Some((f, id)) => {
                                                    if id != i {
                                                        rep.fail("prediction-misplaced", opname, format!("{}: position {} holds the prediction made for row {} (fold {})", ctx, i, id, f));
                                                        break;
                                                    }
                                                    if f >= trains.len() || trains[f].contains(&i) {
                                                        rep.fail("leak", opname, format!("{}: row {} was predicted by the model of fold {} which was fitted on it", ctx, i, f));
                                                        break;
                                                    }
                                                }
                                            }
                                        }
                                    }
                                    Out::Scores(Ok((train_score, test_score))) => {
                                        d.f64s(train_score).f64s(test_score);
                                        if train_score.len() != k || test_score.len() != k {
                                            rep.fail("result-shape", opname, format!("{}: {} train / {} test scores for k = {}", ctx, train_score.len(), test_score.len(), k));
                                        } else {
                                            let scores: Vec<(&Vec<f64>, &Vec<f64>, f64)> = h
                                                .events
                                                .iter()
                                                .filter_map(|e| match e {
                                                    Ev::Score { y_true, y_pred, ret } => Some((y_true, y_pred, *ret)),
                                                    _ => None,
                                                })
                                                .collect();
                                            // per model (in the order the models were fitted): what the scorer returned for its
                                            // held-out rows and for its training rows
                                            let mut per_model: Vec<(u64, u64)> = vec![];
                                            for f in 0..k.min(tests.len()) {
                                                let expect = |ids: &Vec<usize>| -> (Vec<f64>, Vec<f64>) {
                                                    (
                                                        ids.iter().map(|i| g(*i)).collect(),
                                                        ids.iter().map(|i| (f as f64 + 1.0) * FOLD_BASE + *i as f64).collect(),
                                                    )
                                                };
                                                let mut rets = [0u64; 2];
                                                for (slot, (which, ids)) in [("test", &tests[f]), ("train", &trains[f])].into_iter().enumerate() {
                                                    let (et, ep) = expect(ids);
                                                    match scores.iter().find(|s| *s.0 == et && *s.1 == ep) {
                                                        None => rep.fail(
                                                            "score-args",
                                                            opname,
                                                            format!("{}: fold {}: the scorer was never called with the {} targets of rows {:?} and the fold model's predictions for exactly those rows", ctx, f, which, clip(ids)),
                                                        ),
                                                        Some(s) => rets[slot] = s.2.to_bits(),
                                                    }
                                                }
                                                per_model.push((rets[0], rets[1]));
                                            }
                                            // the result must hold exactly these (test, train) pairs, each model's two scores at one
                                            // position; which position a fold gets is not stated by the property (an implementation that
                                            // visits the folds in another order and files the scores under the splitter's fold number
                                            // is as right as one that files them in the order of fitting)
                                            if rep.violation.is_none() {
                                                let mut got: Vec<(u64, u64)> = (0..k).map(|i| (test_score[i].to_bits(), train_score[i].to_bits())).collect();
                                                let mut want = per_model.clone();
                                                got.sort_unstable();
                                                want.sort_unstable();
                                                if got != want {
                                                    rep.fail(
                                                        "score-misplaced",
                                                        opname,
                                                        format!("{}: test_score = {:?}, train_score = {:?}, but the scorer returned (test, train) = {:?} for the models in the order they were fitted: the result does not pair every model's two scores at one position", ctx, test_score, train_score, per_model.iter().map(|p| (f64::from_bits(p.0), f64::from_bits(p.1))).collect::<Vec<_>>()),
                                                    );
                                                }
                                            }
                                        }
                                    }
                                    _ => {}
                                }
                                tests_for_state = Some(tests);
                            }
                        }
                    }
                }
            }
        }

        let log = guard.log();
        drop(guard);
        rep.count("steps.rng_words", log.words.len() as u64);
        rep.count("fault.extreme-draw", log.extremes);
        if case.kind == "forced-permutation" || case.kind == "forced-structured" {
            rep.count("fault.forced-permutation", (log.from_prefix > 0) as u64);
        }
        if case.shuffle && case.kind == "prng" {
            rep.count("fault.prng-schedule", 1);
        }
        rep.tape = log.words.clone();
        d.u64(log.digest());
        // schedule: the decoded permutation
        if case.shuffle && !log.words.is_empty() {
            let (perm, used) = decode_shuffle(n, &log.words);
            let identity = perm.iter().enumerate().all(|(i, v)| i == *v);
            if used != log.words.len() {
                rep.count("probe.shuffle-used-extra-words", 1);
            }
            if !identity {
                let mut sd = Digest::new();
                sd.usize(n).usize(k).usizes(&perm).str(&format!("{:?}", std::mem::discriminant(&case.op)));
                rep.schedule = Some(sd.get());
            } else {
                rep.count("probe.identity-permutation", 1);
            }
            // cross-check (informational, never a verdict): the observed folds are the blocks of
            // the permutation decoded from the served words
            if let (Some(tests), true) = (&tests_for_state, case.op == Op::KFold) {
                let base = n / k;
                let extra = n % k;
                let mut cur = 0;
                let mut agree = true;
                for (f, t) in tests.iter().enumerate() {
                    let sz = base + if f < extra { 1 } else { 0 };
                    if cur + sz > perm.len() {
                        agree = false;
                        break;
                    }
                    let mut blk: Vec<usize> = perm[cur..cur + sz].to_vec();
                    blk.sort_unstable();
                    let mut tt = t.clone();
                    tt.sort_unstable();
                    if blk != tt {
                        agree = false;
                    }
                    cur += sz;
                }
                rep.count(if agree { "probe.folds-equal-decoded-permutation-blocks" } else { "probe.folds-differ-from-decoded-permutation-blocks" }, 1);
            }
        }
        if let Some(t) = &tests_for_state {
            rep.states.push(partition_digest(n, t));
        }
        rep.log_digest = d.get();
    }
}

impl Property for C16 {
    type Case = Case;
    fn id(&self) -> &'static str {
        "C16"
    }

    fn batches(&self, tier: Tier) -> Vec<Batch> {
        let q = tier == Tier::Quick;
        vec![
            Batch { name: "noshuffle-exhaustive", count: noshuffle_pairs().len() as u64 * 3, simulated: false, exhaustive: true,
                    note: "shuffle off: every 2<=k<=n<=64 x {KFold, cross_val_predict, cross_validate}; no draw is made (schedule-free)" },
            Batch { name: "split-noshuffle", count: 64 * TEST_SIZES.len() as u64 * 2, simulated: false, exhaustive: true,
                    note: "train_test_split, shuffle off: n 1..64 x 16 test sizes x {f64,f32} (schedule-free)" },
            Batch { name: "split-boundary", count: split_boundaries().len() as u64 * 2, simulated: true, exhaustive: true,
                    note: "train_test_split with test_size = fl(k/n) and its two f32 neighbours for every 1<=k<=n<=64 (both sides of every boundary of floor(n*test_size)), f32 and f64 matrices, shuffled and not" },
            Batch { name: "split-large", count: if q { 300 } else { 6_000 }, simulated: true, exhaustive: false,
                    note: "train_test_split on 1000..20000 rows (the property bounds n only for k-fold), shuffled and unshuffled" },
            Batch { name: "split-huge", count: if q { 4 } else { 24 }, simulated: false, exhaustive: false,
                    note: "train_test_split on 2^24+1 .. 2^25+64 rows (beyond the integers single precision represents exactly), unshuffled, one f64 column" },
            Batch { name: "kfold-many-folds", count: if q { 1 } else { 6 }, simulated: false, exhaustive: false,
                    note: "unshuffled KFold with 65536..70001 folds (leave-one-out and near it); the first 300 pairs are drawn from the iterator and checked one by one" },
            Batch { name: "forced-perm-exhaustive", count: forced_small().cases.len() as u64, simulated: true, exhaustive: true,
                    note: "every permutation of n<=6 rows forced through the RNG seam x every k x every operation" },
            Batch { name: "prng-shuffle", count: if q { 200_000 } else { 6_000_000 }, simulated: true, exhaustive: false,
                    note: "seeded PRNG words behind thread_rng; n 2..64 (thorough: up to 300)" },
            Batch { name: "extreme-shuffle", count: if q { 80_000 } else { 2_000_000 }, simulated: true, exhaustive: false,
                    note: "PRNG words with extreme words (0, 1, 2^31, 2^32-1, ...) injected at random draw sites" },
            Batch { name: "forced-structured", count: if q { 40_000 } else { 600_000 }, simulated: true, exhaustive: false,
                    note: "identity / reverse / rotation / parity-sorted / adjacent-swap permutations forced through the seam" },
            Batch { name: "splitter-party", count: if q { 20_000 } else { 400_000 }, simulated: true, exhaustive: false,
                    note: "a harness-owned BaseKFold party hands out explicit folds whose training part is not the complement of the test part (expanding window / sub-sampled / embargo); the folds must be used verbatim" },
            Batch { name: "wrap-sessions", count: if q { 48 } else { 600 }, simulated: true, exhaustive: false,
                    note: "long single-thread sessions whose number of calls / folds between two identical splits straddles 2^8 or 2^16: state kept in counters narrower than usize wraps there" },
            Batch { name: "sessions", count: if q { 40_000 } else { 800_000 }, simulated: true, exhaustive: false,
                    note: "sessions of 2..4 calls on one thread (train_test_split / KFold / cross_val_predict / cross_validate, shuffled and not, mostly on the same number of rows): every call is judged, so state that survives from one call to the next shows" },
            Batch { name: "party-fault", count: if q { 40_000 } else { 600_000 }, simulated: true, exhaustive: false,
                    note: "estimator fit/predict fails at a chosen fold; invariants are checked on the history prefix" },
        ]
    }

    fn gen(&self, batch: &str, index: u64, seed: u64) -> Case {
        if batch == "wrap-sessions" {
            let mut r = Xo::fork(seed, "wrap");
            let (n, k) = *r.pick(&[(64usize, 64usize), (64, 64), (33, 11), (20, 5), (64, 2)]);
            let (filler_n, filler_k) = *r.pick(&[(2usize, 2usize), (2, 2), (3, 3), (5, 2)]);
            // target: calls or folds in between = 2^8 or 2^16, give or take a few dozen
            let target = if index % 4 == 0 { 256i64 } else { 65_536 };
            let unit = if r.chance(0.5) { 1 } else { filler_k as i64 }; // count calls, or folds
            let filler = (((target + r.below(160) as i64 - 80) / unit).max(1)) as usize;
            let shuffle = r.chance(0.3);
            return Case { op: Op::KFoldWrap { filler, filler_n, filler_k }, n, k, p: 1, shuffle, fail_at: None, tape: TapeSpec::prng(Xo::fork(seed, "schedule").u64()), kind: "wrap-session".into(), f32m: false, custom_folds: None, ctor: (index % 3) as u8, backend: 0, n_splits_report: None, nonfinite_pred: None, prelude: vec![] };
        }
        if batch == "sessions" {
            let mut sr = Xo::fork(seed, "session");
            let pick = |sr: &mut Xo, j: u64| -> Case {
                let b = *sr.pick(&["prng-shuffle", "prng-shuffle", "extreme-shuffle", "forced-structured", "session-noshuffle", "session-noshuffle", "splitter-party"]);
                let sub = crate::core::rng::Xo::fork(seed, "session-step").u64() ^ (j.wrapping_mul(0x9E37_79B9_7F4A_7C15));
                if b == "session-noshuffle" {
                    let mut c = self.gen("prng-shuffle", index, sub);
                    c.shuffle = false;
                    c.kind = "noshuffle".into();
                    c
                } else {
                    self.gen(b, index, sub)
                }
            };
            let mut main = pick(&mut sr, 0);
            let steps = sr.usize_in(1, 3);
            let mut prelude = vec![];
            for j in 0..steps {
                let mut c = pick(&mut sr, 1 + j as u64);
                // mostly the same number of rows (and columns) as the call under judgement; custom folds are tied to their n
                if c.custom_folds.is_none() && main.custom_folds.is_none() && sr.chance(0.8) {
                    c.n = main.n;
                    c.k = c.k.min(c.n).max(2);
                    if sr.chance(0.5) {
                        c.p = main.p;
                    }
                    if let Op::Split { test_size, .. } = &c.op {
                        if ((c.n as f32) * *test_size) as usize == 0 {
                            c.op = Op::Split { test_size: 0.5, f32m: false };
                        }
                    }
                    if let Some((row, kind)) = c.nonfinite_pred {
                        c.nonfinite_pred = Some((row % c.n, kind));
                    }
                    // a forced permutation prefix was synthesised for the old n
                    c.tape.prefix.clear();
                }
                prelude.push(c);
            }
            main.prelude = prelude;
            main.kind = format!("session/{}", main.kind);
            return main;
        }
        let mut r = Xo::fork(seed, "workload");
        let tape_seed = Xo::fork(seed, "schedule").u64();
        let big = index % 5 == 3; // every fifth run of a shuffled batch: n up to 300
        let bk = Xo::fork(seed, "backend").below(6) as u8; // matrix back end of the train_test_split runs
        match batch {
            "noshuffle-exhaustive" => {
                let (n, k) = noshuffle_pairs()[(index / 3) as usize];
                let op = [Op::KFold, Op::CrossValPredict, Op::CrossValidate][(index % 3) as usize].clone();
                Case { op, n, k, p: 1 + (index % 3) as usize, shuffle: false, fail_at: None, tape: TapeSpec::prng(tape_seed), kind: "noshuffle".into(), f32m: (n + k) % 4 == 0, custom_folds: None, ctor: ((n * 3 + k) % 3) as u8, backend: 0, n_splits_report: None, nonfinite_pred: None, prelude: vec![] }
            }
            "split-noshuffle" => {
                let f32m = index % 2 == 1;
                let i = index / 2;
                let ts = TEST_SIZES[(i % TEST_SIZES.len() as u64) as usize];
                let mut n = 1 + (i / TEST_SIZES.len() as u64) as usize;
                // precondition of the property: floor(n * test_size) >= 1
                while ((n as f32) * ts) as usize == 0 {
                    n += 7;
                }
                Case { op: Op::Split { test_size: ts, f32m }, n, k: 2, p: 1 + (index % 4) as usize, shuffle: false, fail_at: None, tape: TapeSpec::prng(tape_seed), kind: "noshuffle".into(), f32m: false, custom_folds: None, ctor: 0, backend: bk, n_splits_report: None, nonfinite_pred: None, prelude: vec![] }
            }
            "forced-perm-exhaustive" => forced_small().cases[index as usize].clone(),
            "split-boundary" => {
                // test sizes on both sides of every boundary of floor(n * test_size): fl(k/n) and its two f32 neighbours,
                // and the largest f32 below 1
                let (n, k, which) = split_boundaries()[(index / 2) as usize];
                let base = k as f32 / n as f32;
                let ts = match which {
                    0 => base,
                    1 => f32::from_bits(base.to_bits() - 1),
                    _ => f32::from_bits(base.to_bits() + 1),
                };
                let ts = if ts > 1.0 { 1.0 } else { ts };
                let mut n2 = n;
                while ((n2 as f32) * ts) as usize == 0 {
                    n2 += 1; // precondition of the property: floor(n * test_size) >= 1
                }
                Case { op: Op::Split { test_size: ts, f32m: index % 2 == 1 }, n: n2, k: 2, p: 1 + (index % 3) as usize, shuffle: index % 4 < 2, fail_at: None, tape: TapeSpec::prng(tape_seed), kind: "prng".into(), f32m: false, custom_folds: None, ctor: 0, backend: bk, n_splits_report: None, nonfinite_pred: None, prelude: vec![] }
            }
            "split-huge" => {
                let n = if index % 3 == 2 { (1usize << 25) + r.usize_in(1, 64) } else { (1usize << 24) + r.usize_in(1, 64) };
                let ts = *r.pick(&[0.75f32, 0.3, 0.1, 0.9, 0.5, 0.33333334]);
                Case { op: Op::Split { test_size: ts, f32m: false }, n, k: 2, p: 1, shuffle: false, fail_at: None, tape: TapeSpec::prng(tape_seed), kind: "noshuffle".into(), f32m: false, custom_folds: None, ctor: 0, backend: 0, n_splits_report: None, nonfinite_pred: None, prelude: vec![] }
            }
            "kfold-many-folds" => {
                let k = *r.pick(&[65_537usize, 65_536, 65_538, 70_001]);
                let k = if index == 0 { 65_537 } else { k };
                let n = k + *r.pick(&[0usize, 0, 1, 5]);
                Case { op: Op::KFoldHead { folds: 300 }, n, k, p: 1, shuffle: false, fail_at: None, tape: TapeSpec::prng(tape_seed), kind: "noshuffle".into(), f32m: false, custom_folds: None, ctor: (index % 3) as u8, backend: 0, n_splits_report: None, nonfinite_pred: None, prelude: vec![] }
            }
            "split-large" => {
                // train_test_split has no upper bound on n in the property: a few thousand rows, shuffled and not
                let n = r.usize_in(1000, 20000);
                let ts = if r.chance(0.5) { *r.pick(&TEST_SIZES) } else { r.range(0.0005, 1.0) as f32 };
                let ts = if ((n as f32) * ts) as usize == 0 { 0.5 } else { ts };
                Case { op: Op::Split { test_size: ts, f32m: false }, n, k: 2, p: r.usize_in(1, 3), shuffle: r.chance(0.6), fail_at: None, tape: TapeSpec::prng(tape_seed), kind: "prng".into(), f32m: false, custom_folds: None, ctor: 0, backend: bk, n_splits_report: None, nonfinite_pred: None, prelude: vec![] }
            }
            _ => {
                let hi = if big { 300 } else { 64 };
                let n = r.usize_in(2, hi);
                let k = if r.chance(0.15) { n } else if r.chance(0.3) { 2 } else { r.usize_in(2, n.min(12)) };
                // sometimes more columns than rows (wide data)
                let p = if r.chance(0.1) { r.usize_in(5, 40) } else { r.usize_in(1, 4) };
                let opsel = r.below(10);
                let op = match opsel {
                    0..=2 => Op::KFold,
                    3..=4 => {
                        let mut ts = if r.chance(0.5) { *r.pick(&TEST_SIZES) } else { r.range(0.0001, 1.0) as f32 };
                        if ts <= 0.0 {
                            ts = 0.5;
                        }
                        // precondition: floor(n*test_size) >= 1
                        while ((n as f32) * ts) as usize == 0 {
                            ts = (ts * 2.0).min(1.0);
                        }
                        Op::Split { test_size: ts, f32m: r.chance(0.3) }
                    }
                    5..=7 => Op::CrossValPredict,
                    _ => Op::CrossValidate,
                };
                let mut c = Case { op, n, k, p, shuffle: true, fail_at: None, tape: TapeSpec::prng(tape_seed), kind: "prng".into(), f32m: r.chance(0.25), custom_folds: None, ctor: r.below(3) as u8, backend: 0, n_splits_report: None, nonfinite_pred: None, prelude: vec![] };
                if matches!(c.op, Op::Split { .. }) {
                    c.backend = bk;
                }
                if c.op == Op::CrossValPredict {
                    let mut nf = Xo::fork(seed, "nonfinite");
                    if nf.chance(0.06) {
                        c.nonfinite_pred = Some((nf.below(n as u64) as usize, 1 + nf.below(3) as u8));
                    }
                }
                match batch {
                    "prng-shuffle" => {}
                    "extreme-shuffle" => {
                        c.tape.extreme_pm = *r.pick(&[20u32, 100, 300, 700, 1000]);
                        c.kind = "extreme".into();
                    }
                    "forced-structured" => {
                        let perm = structured_perm(n, r.below(6), &mut r);
                        c.tape.prefix = words_for_permutation(&perm);
                        c.kind = "forced-structured".into();
                    }
                    "party-fault" => {
                        if !matches!(c.op, Op::CrossValPredict | Op::CrossValidate) {
                            c.op = if r.chance(0.5) { Op::CrossValPredict } else { Op::CrossValidate };
                        }
                        c.shuffle = r.chance(0.7);
                        let stages: u8 = if c.op == Op::CrossValidate { 3 } else { 2 };
                        c.fail_at = Some((r.below(k as u64) as usize, r.below(stages as u64) as u8));
                        c.kind = "party-fault".into();
                    }
                    "splitter-party" => {
                        // a harness-owned BaseKFold: disjoint test sets that need not cover 0..n, training sets that are
                        // NOT the complement (expanding window, sub-sampled, or complement minus an embargo)
                        c.op = if r.chance(0.5) { Op::CrossValPredict } else { Op::CrossValidate };
                        c.shuffle = false;
                        let nf = r.usize_in(2, 6.min(n / 2).max(2));
                        let mut ids: Vec<usize> = (0..n).collect();
                        r.shuffle(&mut ids);
                        let per = (n / nf).max(1);
                        let mut folds = vec![];
                        for fi in 0..nf {
                            let mut test: Vec<usize> = ids.iter().skip(fi * per).take(r.usize_in(1, per)).copied().collect();
                            test.sort_unstable();
                            if test.is_empty() {
                                continue;
                            }
                            let lo = test[0];
                            let style = r.below(4);
                            let mut train: Vec<usize> = match style {
                                3 => {
                                    // resampled with replacement from the rows that are not held out (bootstrap / oversampling
                                    // splitters): an index list with repeats, often sorted
                                    let pool: Vec<usize> = (0..n).filter(|i| !test.contains(i)).collect();
                                    if pool.is_empty() {
                                        vec![]
                                    } else {
                                        let m = r.usize_in(2, 2 * n);
                                        let mut t: Vec<usize> = (0..m).map(|_| pool[r.below(pool.len() as u64) as usize]).collect();
                                        if r.chance(0.7) {
                                            t.sort_unstable();
                                        }
                                        t
                                    }
                                }
                                0 => (0..lo).collect(),                                                     // expanding window
                                1 => (0..n).filter(|i| !test.contains(i) && r.chance(0.6)).collect(),       // sub-sampled
                                _ => (0..n).filter(|i| !test.contains(i) && (*i + 1 < lo || *i > test[test.len() - 1] + 1)).collect(), // embargo
                            };
                            if train.is_empty() {
                                train = (0..n).filter(|i| !test.contains(i)).take(1).collect();
                            }
                            if train.is_empty() {
                                continue;
                            }
                            // a splitter may hand out its rows in any order
                            if r.chance(0.5) {
                                r.shuffle(&mut test);
                            }
                            if style != 3 && r.chance(0.5) {
                                r.shuffle(&mut train);
                            }
                            folds.push((train, test));
                        }
                        if folds.len() < 2 {
                            folds = vec![((1..n).collect(), vec![0]), ((0..n - 1).collect(), vec![n - 1])];
                        }
                        // sometimes one fold holds nothing out (more splits than samples, an embargo that eats the whole
                        // test window): it is still a fold — a model is fitted on its training rows and scored on no rows
                        if r.chance(0.1) {
                            let at = r.below(folds.len() as u64) as usize;
                            folds[at].1.clear();
                        }
                        c.k = folds.len();
                        if r.chance(0.3) {
                            let len = folds.len();
                            c.n_splits_report = Some(*r.pick(&[len.saturating_sub(1), len + 2, 1, 0, 2 * len]));
                        }
                        c.custom_folds = Some(folds);
                        c.kind = "splitter-party".into();
                    }
                    _ => panic!("unknown batch {}", batch),
                }
                c
            }
        }
    }

    fn run(&self, case: &Case) -> Report {
        let mut rep = Report::default();
        match guarded(|| {
            let mut r = Report::default();
            let one = |c: &Case, r: &mut Report| {
                let single = c.f32m || matches!(c.op, Op::Split { f32m: true, .. });
                if single {
                    self.run_inner::<f32>(c, r);
                } else {
                    self.run_inner::<f64>(c, r);
                }
            };
            // a session: the earlier calls of the sequence, each judged by the same oracles
            let mut pre_digest = Digest::new();
            for (i, pc) in case.prelude.iter().enumerate() {
                let mut pr = Report::default();
                one(pc, &mut pr);
                pre_digest.u64(pr.log_digest);
                for (k, v) in pr.counters.iter() {
                    r.count(k, *v);
                }
                r.count("fault.earlier-call-in-session", 1);
                if let Some(v) = pr.violation {
                    r.fail(&v.class, &v.cause, format!("call {} of a session of {}: {}", i + 1, case.prelude.len() + 1, v.detail));
                    r.log_digest = pre_digest.get();
                    return r;
                }
            }
            let mut main = Report::default();
            one(case, &mut main);
            for (k, v) in r.counters.iter() {
                *main.counters.entry(k.clone()).or_insert(0) += *v;
            }
            if !case.prelude.is_empty() {
                pre_digest.u64(main.log_digest);
                main.log_digest = pre_digest.get();
                if let Some(v) = main.violation.as_mut() {
                    v.detail = format!("call {} of a session of {} (after {}): {}", case.prelude.len() + 1, case.prelude.len() + 1, case.prelude.iter().map(|c| format!("{:?}/n={}/shuffle={}", c.op, c.n, c.shuffle)).collect::<Vec<_>>().join(", "), v.detail);
                }
            }
            main
        }) {
            Ok(r) => rep = r,
            Err(msg) => {
                rand::sim::uninstall();
                rep.fail("harness-panic", "c16", format!("harness panicked: {}", msg));
            }
        }
        rep
    }

    fn shrink(&self, case: &Case) -> Vec<Case> {
        let mut out = vec![];
        // sessions: fewer calls first (no earlier calls at all; an earlier call promoted to the last one; one call dropped)
        if !case.prelude.is_empty() {
            let mut c = case.clone();
            c.prelude.clear();
            out.push(c);
            for i in 0..case.prelude.len() {
                let mut c = case.prelude[i].clone();
                c.prelude = case.prelude[..i].to_vec();
                out.push(c);
                let mut c = case.clone();
                c.prelude.remove(i);
                out.push(c);
            }
        }
        let mut push = |c: Case| {
            if c == *case {
                return;
            }
            let valid = match &c.op {
                Op::Split { test_size, .. } => c.n >= 1 && ((c.n as f32) * *test_size) as usize >= 1,
                _ => c.k >= 2 && c.n >= c.k,
            };
            if valid {
                out.push(c);
            }
        };
        if case.fail_at.is_some() {
            let mut c = case.clone();
            c.fail_at = None;
            push(c);
        }
        for nn in [case.k.max(2), case.n / 2, case.n.saturating_sub(1)] {
            if case.custom_folds.is_some() {
                break;
            }
            if nn < case.n && nn >= 1 {
                let mut c = case.clone();
                c.n = nn;
                c.k = c.k.min(nn);
                if let Some((f, s)) = c.fail_at {
                    c.fail_at = Some((f.min(c.k - 1), s));
                }
                push(c);
            }
        }
        if let Some(cf) = &case.custom_folds {
            for i in 0..cf.len() {
                if cf.len() > 1 {
                    let mut c = case.clone();
                    let mut f2 = cf.clone();
                    f2.remove(i);
                    c.k = f2.len().max(2);
                    c.custom_folds = Some(f2);
                    push(c);
                }
            }
        }
        for kk in [2, case.k / 2, case.k.saturating_sub(1)] {
            if case.custom_folds.is_some() {
                break;
            }
            if kk >= 2 && kk < case.k {
                let mut c = case.clone();
                c.k = kk;
                if let Some((f, s)) = c.fail_at {
                    c.fail_at = Some((f.min(kk - 1), s));
                }
                push(c);
            }
        }
        if case.shuffle {
            let mut c = case.clone();
            c.shuffle = false;
            push(c);
        }
        if case.p > 1 {
            let mut c = case.clone();
            c.p = 1;
            push(c);
        }
        if case.f32m {
            let mut c = case.clone();
            c.f32m = false;
            push(c);
        }
        if case.tape.extreme_pm > 0 {
            let mut c = case.clone();
            c.tape.extreme_pm = 0;
            push(c);
        }
        // tape: zero words (towards the identity-ish schedule)
        for i in 0..case.tape.prefix.len().min(64) {
            if case.tape.prefix[i].1 != 0 {
                let mut c = case.clone();
                c.tape.prefix[i].1 = 0;
                push(c);
            }
        }
        out
    }

    fn literalize(&self, case: &Case, report: &Report) -> Case {
        let mut c = case.clone();
        // (a session keeps its seeded tape policies: they are deterministic, and the report carries one tape only)
        if case.prelude.is_empty() {
            c.tape = TapeSpec::literal(&report.tape, case.tape.seed);
        }
        c
    }

    fn sample(&self, case: &Case, report: &Report) -> Value {
        json!({
            "op": format!("{:?}", case.op), "n": case.n, "k": case.k, "p": case.p, "shuffle": case.shuffle,
            "fail_at": case.fail_at, "kind": case.kind, "f32": case.f32m, "kfold_constructed_by": (["struct literal", "default().with_n_splits().with_shuffle()", "default().with_shuffle().with_n_splits()"][(case.ctor % 3) as usize]), "splitter_party_folds": case.custom_folds,
            "tape_prefix_words": case.tape.prefix.len(), "tape_seed": case.tape.seed, "extreme_per_mille": case.tape.extreme_pm,
            "words_served": report.tape.len(),
            "first_words_served": report.tape.iter().take(8).collect::<Vec<_>>(),
            "log_digest": format!("{:016x}", report.log_digest),
            "violation": report.violation.as_ref().map(|v| v.class.clone()),
        })
    }

    fn rule(&self) -> String {
        "cases: (operation in {KFold::split, train_test_split, cross_val_predict, cross_validate}, n, k / test_size, shuffle, tape policy) generated from case_seed; \
         the permutation each shuffle draws is decided by the words served through the patched ThreadRng seam. distinct_nontrivial = number of distinct \
         (operation, n, k, decoded permutation) among runs with shuffle on whose decoded permutation is not the identity; the permutation is decoded by \
         running rand's own shuffle over the recorded words".into()
    }
    fn state_measure(&self) -> String {
        "distinct (row -> fold) assignment vectors observed".into()
    }
    fn assumptions(&self) -> Vec<String> {
        vec![
            "the only nondeterminism consumed by the anchored code is rand::thread_rng(), which the patched rand 0.8.8 copy routes to the simulator (ThreadRng::next_u32/next_u64/fill_bytes)".into(),
            "row identity is carried in column 0 and re-derivable from every other column and from the target, so leakage is observed from the data the parties receive, not from indices".into(),
            "sampling, not enumeration, for n > 5 with shuffle on: a clean batch is evidence, not proof".into(),
        ]
    }
    fn components(&self) -> Value {
        json!({
            "real": ["smartcore model_selection (KFold, train_test_split, cross_validate, cross_val_predict)", "smartcore DenseMatrix / Vec take()", "train_test_split also on the crate's ndarray (row-major, column-major, negative strides, stride 2) and nalgebra back ends", "rand 0.8.8 SliceRandom::shuffle, gen_range, uniform rejection sampling"],
            "stub": ["ThreadRng word source (simulator tape)", "estimator fit/predict and scorer closures (recording parties, by design of the seam)", "splitter party (BaseKFold) in the splitter-party batch: explicit folds, n_splits() possibly only nominal"]
        })
    }
}
