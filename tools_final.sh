#!/bin/bash
# Final consolidation: everything below runs the COMMITTED framework against /repo itself.
#   1. thorough tier of all four checks in /verif (this is what writes the committed evidence/*.json)
#   2. tools_determinism.sh (full-batch digests, 16 vs 5 workers)
#   3. mutants/run.sh            -> mutants/RESULTS.txt
#   4. seeded/run_all.sh         -> seeded/RESULTS.txt     (optional: pass "with-seeded"; ~4 min per change)
set -u
HERE=$(cd "$(dirname "$0")" && pwd)
cd "$HERE"
mkdir -p final_logs
rc=0
for id in C16 C06 C12 C10; do
  ./check $id thorough > final_logs/$id.thorough.log 2>&1; r=$?
  tail -1 final_logs/$id.thorough.log
  [ $r -eq 0 ] || { echo "!! $id thorough exit $r"; rc=1; }
done
./tools_determinism.sh > final_logs/determinism.log 2>&1 || { echo "!! determinism"; rc=1; }
cat final_logs/determinism.log
# the determinism script rewrites nothing under evidence/; but quick runs elsewhere might: re-check tiers
for id in C06 C10 C12 C16; do python3 -c "import json;e=json.load(open('evidence/$id.json'));print('$id', e['tier'], e['coverage']['evaluations'], e.get('violations'))"; done
./mutants/run.sh > final_logs/mutants.log 2>&1 || { echo "!! a mutant was not caught"; rc=1; }
grep -c CAUGHT mutants/RESULTS.txt
if [ "${1:-}" = "with-seeded" ]; then ./seeded/run_all.sh > final_logs/seeded.log 2>&1; grep -c "check_exit=1" seeded/RESULTS.txt; fi
exit $rc
