//! Deterministic-simulation seam for [`ThreadRng`](crate::rngs::ThreadRng).
//!
//! NOT part of upstream rand. Added by /verif: when a [`Source`] is installed on
//! the current thread, every word `ThreadRng` would have produced from its
//! ChaCha core is taken from the source instead. When nothing is installed the
//! original code path runs unchanged.
//!
//! Everything above the word level (`gen_range`, `shuffle`, `Standard` for
//! floats, rejection sampling) is rand's own, untouched code.

use std::boxed::Box;
use std::cell::RefCell;
use std::thread_local;

/// A word source owned by the simulator.
pub trait Source {
    /// Serve a `next_u32` request.
    fn next_u32(&mut self) -> u32;
    /// Serve a `next_u64` request.
    fn next_u64(&mut self) -> u64;
}

thread_local! {
    static SIM_SOURCE: RefCell<Option<Box<dyn Source>>> = RefCell::new(None);
}

/// Install `src` as the word source of this thread's `ThreadRng`. Returns the
/// previously installed source, if any.
pub fn install(src: Box<dyn Source>) -> Option<Box<dyn Source>> {
    SIM_SOURCE.with(|s| s.borrow_mut().replace(src))
}

/// Remove the installed source (the real ChaCha/OsRng path is used again).
pub fn uninstall() -> Option<Box<dyn Source>> {
    SIM_SOURCE.with(|s| s.borrow_mut().take())
}

/// True when a source is installed on this thread.
pub fn installed() -> bool {
    SIM_SOURCE.with(|s| s.borrow().is_some())
}

#[inline]
pub(crate) fn sim_u32() -> Option<u32> {
    SIM_SOURCE.with(|s| s.borrow_mut().as_mut().map(|b| b.next_u32()))
}

#[inline]
pub(crate) fn sim_u64() -> Option<u64> {
    SIM_SOURCE.with(|s| s.borrow_mut().as_mut().map(|b| b.next_u64()))
}

pub(crate) fn sim_fill(dest: &mut [u8]) -> bool {
    SIM_SOURCE.with(|s| {
        let mut g = s.borrow_mut();
        match g.as_mut() {
            None => false,
            Some(b) => {
                for chunk in dest.chunks_mut(8) {
                    let w = b.next_u64().to_le_bytes();
                    chunk.copy_from_slice(&w[..chunk.len()]);
                }
                true
            }
        }
    })
}
