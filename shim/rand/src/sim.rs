//! Deterministic-simulation seam for [`ThreadRng`](crate::rngs::ThreadRng).
//!
//! NOT part of upstream rand. Added by /verif: when a [`Source`] is installed on
//! the current thread, every word `ThreadRng` would have produced from its
//! ChaCha core is taken from the source instead. When nothing is installed the
//! original code path runs unchanged.
//!
//! Everything above the word level (`gen_range`, `shuffle`, `Standard` for
//! floats, rejection sampling) is rand's own, untouched code.

use std::boxed::Box;
use std::cell::RefCell;
use std::thread_local;

/// A word source owned by the simulator.
pub trait Source {
    /// Serve a `next_u32` request.
    fn next_u32(&mut self) -> u32;
    /// Serve a `next_u64` request.
    fn next_u64(&mut self) -> u64;
}

thread_local! {
    static SIM_SOURCE: RefCell<Option<Box<dyn Source>>> = RefCell::new(None);
}

/// Install `src` as the word source of this thread's `ThreadRng`. Returns the
/// previously installed source, if any.
pub fn install(src: Box<dyn Source>) -> Option<Box<dyn Source>> {
    SIM_SOURCE.with(|s| s.borrow_mut().replace(src))
}

/// Remove the installed source (the real ChaCha/OsRng path is used again).
pub fn uninstall() -> Option<Box<dyn Source>> {
    SIM_SOURCE.with(|s| s.borrow_mut().take())
}

/// True when a source is installed on this thread.
pub fn installed() -> bool {
    SIM_SOURCE.with(|s| s.borrow().is_some())
}

#[inline]
pub(crate) fn sim_u32() -> Option<u32> {
    SIM_SOURCE.with(|s| s.borrow_mut().as_mut().map(|b| b.next_u32()))
}

#[inline]
pub(crate) fn sim_u64() -> Option<u64> {
    SIM_SOURCE.with(|s| s.borrow_mut().as_mut().map(|b| b.next_u64()))
}

pub(crate) fn sim_fill(dest: &mut [u8]) -> bool {
    SIM_SOURCE.with(|s| {
        let mut g = s.borrow_mut();
        match g.as_mut() {
            None => false,
            Some(b) => {
                for chunk in dest.chunks_mut(8) {
                    let w = b.next_u64().to_le_bytes();
                    chunk.copy_from_slice(&w[..chunk.len()]);
                }
                true
            }
        }
    })
}

// ---------------------------------------------------------------------------------------------
// Second seam: the *seeded* generator (`StdRng`). A seeded generator is deterministic, so there is
// nothing to schedule; what a sampling campaign cannot reach are the draws a ChaCha stream
// produces with negligible probability (a zero word, the largest word, the same index n times).
// With a fault plan installed on the constructing thread, a `StdRng` replaces a pseudo-random
// subset of its output words by boundary values. Which words, and by what, is a pure function of
// (the generator's seed, the plan's salt, the index of the draw): two generators built from the
// same seed under the same plan still produce identical streams, so every statement of the form
// "same seed, same result" keeps its meaning. Without a plan `StdRng` is upstream's, unchanged.

use std::cell::Cell;

/// Fault plan for seeded generators constructed on this thread.
#[derive(Clone, Copy, Debug, PartialEq, Eq)]
pub struct StdFaultPlan {
    /// distinguishes plans (two plans with different salts hit different draws)
    pub salt: u64,
    /// boundary values per million draws (capped at 500_000 so that rejection loops end)
    pub per_million: u32,
}

thread_local! {
    static STD_PLAN: Cell<Option<StdFaultPlan>> = Cell::new(None);
    static STD_FIRED: Cell<u64> = Cell::new(0);
}

/// Install (or clear) the plan for seeded generators constructed on this thread from now on.
/// Returns the previous plan.
pub fn set_std_fault_plan(plan: Option<StdFaultPlan>) -> Option<StdFaultPlan> {
    STD_PLAN.with(|p| p.replace(plan))
}

/// Number of boundary values served on this thread since the last call; resets the counter.
pub fn take_std_faults_fired() -> u64 {
    STD_FIRED.with(|c| c.replace(0))
}

/// Per-generator state of the fault plan (captured when the generator is constructed).
#[derive(Clone, Debug, PartialEq, Eq)]
pub(crate) struct StdFault {
    key: u64,
    salt: u64,
    per_million: u32,
    ctr: u64,
}

#[inline]
fn mix64(mut z: u64) -> u64 {
    z = z.wrapping_add(0x9E37_79B9_7F4A_7C15);
    z = (z ^ (z >> 30)).wrapping_mul(0xBF58_476D_1CE4_E5B9);
    z = (z ^ (z >> 27)).wrapping_mul(0x94D0_49BB_1331_11EB);
    z ^ (z >> 31)
}

pub(crate) fn std_fault_for(seed: &[u8]) -> Option<StdFault> {
    let plan = STD_PLAN.with(|p| p.get())?;
    let mut key = 0x243F_6A88_85A3_08D3u64;
    for chunk in seed.chunks(8) {
        let mut b = [0u8; 8];
        b[..chunk.len()].copy_from_slice(chunk);
        key = mix64(key ^ u64::from_le_bytes(b));
    }
    Some(StdFault { key, salt: plan.salt, per_million: plan.per_million.min(500_000), ctr: 0 })
}

impl StdFault {
    #[inline]
    fn decide(&mut self) -> Option<u64> {
        self.ctr = self.ctr.wrapping_add(1);
        let h = mix64(self.key ^ self.salt.rotate_left(23) ^ self.ctr.wrapping_mul(0xD6E8_FEB8_6659_FD93));
        if (h % 1_000_000) as u32 >= self.per_million {
            return None;
        }
        STD_FIRED.with(|c| c.set(c.get() + 1));
        Some(h >> 20)
    }
    #[inline]
    pub(crate) fn map32(&mut self, v: u32) -> u32 {
        match self.decide() {
            None => v,
            Some(h) => match h % 7 {
                0 | 1 => 0,
                2 => u32::MAX,
                3 => 1,
                4 => u32::MAX - 1,
                5 => 0x8000_0000,
                _ => v & 0xFFFF, // tiny value: first index of any range
            },
        }
    }
    #[inline]
    pub(crate) fn map64(&mut self, v: u64) -> u64 {
        match self.decide() {
            None => v,
            Some(h) => match h % 7 {
                0 | 1 => 0,
                2 => u64::MAX,
                3 => 1,
                4 => u64::MAX - 1,
                5 => 1u64 << 63,
                _ => v & 0xFFFF_FFFF, // tiny value: first index of any range
            },
        }
    }
}
