// Copyright 2018 Developers of the Rand project.
// Copyright 2013-2017 The Rust Project Developers.
//
// Licensed under the Apache License, Version 2.0 <LICENSE-APACHE or
// https://www.apache.org/licenses/LICENSE-2.0> or the MIT license
// <LICENSE-MIT or https://opensource.org/licenses/MIT>, at your
// option. This file may not be copied, modified, or distributed
// except according to those terms.

//! Utilities for random number generation
//!
//! Rand provides utilities to generate random numbers, to convert them to
//! useful types and distributions, and some randomness-related algorithms.
//!
//! # Quick Start
//!
//! To get you started quickly, the easiest and highest-level way to get
//! a random value is to use [`random()`]; alternatively you can use
//! [`thread_rng()`]. The [`Rng`] trait provides a useful API on all RNGs, while
//! the [`distributions`] and [`seq`] modules provide further
//! functionality on top of RNGs.
//!
//! ```
//! use rand::prelude::*;
//!
//! if rand::random() { // generates a boolean
//!     // Try printing a random unicode code point (probably a bad idea)!
//!     println!("char: {}", rand::random::<char>());
//! }
//!
//! let mut rng = rand::thread_rng();
//! let y: f64 = rng.gen(); // generates a float between 0 and 1
//!
//! let mut nums: Vec<i32> = (1..100).collect();
//! nums.shuffle(&mut rng);
//! ```
//!
//! # The Book
//!
//! For the user guide and further documentation, please read
//! [The Rust Rand Book](https://rust-random.github.io/book).

#![doc(
    html_logo_url = "https://www.rust-lang.org/logos/rust-logo-128x128-blk.png",
    html_favicon_url = "https://www.rust-lang.org/favicon.ico",
    html_root_url = "https://rust-random.github.io/rand/"
)]
#![allow(missing_docs)] // verif shim: relaxed (was deny)
#![deny(missing_debug_implementations)]
#![doc(test(attr(allow(unused_variables), deny(warnings))))]
#![no_std]
#![cfg_attr(feature = "nightly", feature(trusted_len))]
#![cfg_attr(docsrs, feature(doc_cfg))]
#![allow(
    clippy::float_cmp,
    clippy::neg_cmp_op_on_partial_ord,
)]

#[cfg(feature = "std")] extern crate std;
#[cfg(feature = "alloc")] extern crate alloc;

// Re-exports from rand_core
pub use rand_core::{CryptoRng, Error, RngCore, SeedableRng};

// Public modules
pub mod distributions;
pub mod prelude;
mod rng;
pub mod rngs;
pub mod seq;
/// verif shim: deterministic-simulation seam for `ThreadRng` (not part of upstream rand).
#[cfg(all(feature = "std", feature = "std_rng"))]
pub mod sim;

// Public exports
#[cfg(all(feature = "std", feature = "std_rng"))]
pub use crate::rngs::thread::thread_rng;
pub use rng::{Fill, Rng};

#[cfg(all(feature = "std", feature = "std_rng"))]
use crate::distributions::{Distribution, Standard};

/// Generates a random value using the thread-local random number generator.
///
/// This is simply a shortcut for `thread_rng().gen()`. See [`thread_rng`] for
/// documentation of the entropy source and [`Standard`] for documentation of
/// distributions and type-specific generation.
///
/// # Provided implementations
///
/// The following types have provided implementations that
/// generate values with the following ranges and distributions:
///
/// * Integers (`i32`, `u32`, `isize`, `usize`, etc.): Uniformly distributed
///   over all values of the type.
/// * `char`: Uniformly distributed over all Unicode scalar values, i.e. all
///   code points in the range `0...0x10_FFFF`, except for the range
///   `0xD800...0xDFFF` (the surrogate code points). This includes
///   unassigned/reserved code points.
/// * `bool`: Generates `false` or `true`, each with probability 0.5.
/// * Floating point types (`f32` and `f64`): Uniformly distributed in the
///   half-open range `[0, 1)`. See notes below.
/// * Wrapping integers (`Wrapping<T>`), besides the type identical to their
///   normal integer variants.
///
/// Also supported is the generation of the following
/// compound types where all component types are supported:
///
/// *   Tuples (up to 12 elements): each element is generated sequentially.
/// *   Arrays (up to 32 elements): each element is generated sequentially;
///     see also [`Rng::fill`] which supports arbitrary array length for integer
///     types and tends to be faster for `u32` and smaller types.
/// *   `Option<T>` first generates a `bool`, and if true generates and returns
///     `Some(value)` where `value: T`, otherwise returning `None`.
///
/// # Examples
///
/// ```
/// let x = rand::random::<u8>();
/// println!("{}", x);
///
/// let y = rand::random::<f64>();
/// println!("{}", y);
///
/// if rand::random() { // generates a boolean
///     println!("Better lucky than good!");
/// }
/// ```
///
/// If you're calling `random()` in a loop, caching the generator as in the
/// following example can increase performance.
///
/// ```
/// use rand::Rng;
///
/// let mut v = vec![1, 2, 3];
///
/// for x in v.iter_mut() {
///     *x = rand::random()
/// }
///
/// // can be made faster by caching thread_rng
///
/// let mut rng = rand::thread_rng();
///
/// for x in v.iter_mut() {
///     *x = rng.gen();
/// }
/// ```
///
/// [`Standard`]: distributions::Standard
#[cfg(all(feature = "std", feature = "std_rng"))]
#[cfg_attr(docsrs, doc(cfg(all(feature = "std", feature = "std_rng"))))]
#[inline]
pub fn random<T>() -> T
where Standard: Distribution<T> {
    thread_rng().gen()
}

#[cfg(test)]
mod test {
    use super::*;

    /// Construct a deterministic RNG with the given seed
    pub fn rng(seed: u64) -> impl RngCore {
        // For tests, we want a statistically good, fast, reproducible RNG.
        // PCG32 will do fine, and will be easy to embed if we ever need to.
        const INC: u64 = 11634580027462260723;
        rand_pcg::Pcg32::new(seed, INC)
    }

    #[test]
    #[cfg(all(feature = "std", feature = "std_rng"))]
    fn test_random() {
        let _n: usize = random();
        let _f: f32 = random();
        let _o: Option<Option<i8>> = random();
        #[allow(clippy::type_complexity)]
        let _many: (
            (),
            (usize, isize, Option<(u32, (bool,))>),
            (u8, i8, u16, i16, u32, i32, u64, i64),
            (f32, (f64, (f64,))),
        ) = random();
    }
}
