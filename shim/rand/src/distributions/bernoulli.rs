// Copyright 2018 Developers of the Rand project.
//
// Licensed under the Apache License, Version 2.0 <LICENSE-APACHE or
// https://www.apache.org/licenses/LICENSE-2.0> or the MIT license
// <LICENSE-MIT or https://opensource.org/licenses/MIT>, at your
// option. This file may not be copied, modified, or distributed
// except according to those terms.

//! The Bernoulli distribution.

use crate::distributions::Distribution;
use crate::Rng;
use core::{fmt, u64};

#[cfg(feature = "serde1")]
use serde::{Serialize, Deserialize};
/// The Bernoulli distribution.
///
/// This is a special case of the Binomial distribution where `n = 1`.
///
/// # Example
///
/// ```rust
/// use rand::distributions::{Bernoulli, Distribution};
///
/// let d = Bernoulli::new(0.3).unwrap();
/// let v = d.sample(&mut rand::thread_rng());
/// println!("{} is from a Bernoulli distribution", v);
/// ```
///
/// # Precision
///
/// This `Bernoulli` distribution uses 64 bits from the RNG (a `u64`),
/// so only probabilities that are multiples of 2<sup>-64</sup> can be
/// represented.
#[derive(Clone, Copy, Debug, PartialEq)]
#[cfg_attr(feature = "serde1", derive(Serialize, Deserialize))]
pub struct Bernoulli {
    /// Probability of success, relative to the maximal integer.
    p_int: u64,
}

// To sample from the Bernoulli distribution we use a method that compares a
// random `u64` value `v < (p * 2^64)`.
//
// If `p == 1.0`, the integer `v` to compare against can not represented as a
// `u64`. We manually set it to `u64::MAX` instead (2^64 - 1 instead of 2^64).
// Note that  value of `p < 1.0` can never result in `u64::MAX`, because an
// `f64` only has 53 bits of precision, and the next largest value of `p` will
// result in `2^64 - 2048`.
//
// Also there is a 100% theoretical concern: if someone consistently wants to
// generate `true` using the Bernoulli distribution (i.e. by using a probability
// of `1.0`), just using `u64::MAX` is not enough. On average it would return
// false once every 2^64 iterations. Some people apparently care about this
// case.
//
// That is why we special-case `u64::MAX` to always return `true`, without using
// the RNG, and pay the performance price for all uses that *are* reasonable.
// Luckily, if `new()` and `sample` are close, the compiler can optimize out the
// extra check.
const ALWAYS_TRUE: u64 = u64::MAX;

// This is just `2.0.powi(64)`, but written this way because it is not available
// in `no_std` mode.
const SCALE: f64 = 2.0 * (1u64 << 63) as f64;

/// Error type returned from `Bernoulli::new`.
#[derive(Clone, Copy, Debug, PartialEq, Eq)]
pub enum BernoulliError {
    /// `p < 0` or `p > 1`.
    InvalidProbability,
}

impl fmt::Display for BernoulliError {
    fn fmt(&self, f: &mut fmt::Formatter<'_>) -> fmt::Result {
        f.write_str(match self {
            BernoulliError::InvalidProbability => "p is outside [0, 1] in Bernoulli distribution",
        })
    }
}

#[cfg(feature = "std")]
impl ::std::error::Error for BernoulliError {}

impl Bernoulli {
    /// Construct a new `Bernoulli` with the given probability of success `p`.
    ///
    /// # Precision
    ///
    /// For `p = 1.0`, the resulting distribution will always generate true.
    /// For `p = 0.0`, the resulting distribution will always generate false.
    ///
    /// This method is accurate for any input `p` in the range `[0, 1]` which is
    /// a multiple of 2<sup>-64</sup>. (Note that not all multiples of
    /// 2<sup>-64</sup> in `[0, 1]` can be represented as a `f64`.)
    #[inline]
    pub fn new(p: f64) -> Result<Bernoulli, BernoulliError> {
        if !(0.0..1.0).contains(&p) {
            if p == 1.0 {
                return Ok(Bernoulli { p_int: ALWAYS_TRUE });
            }
            return Err(BernoulliError::InvalidProbability);
        }
        Ok(Bernoulli {
            p_int: (p * SCALE) as u64,
        })
    }

    /// Construct a new `Bernoulli` with the probability of success of
    /// `numerator`-in-`denominator`. I.e. `new_ratio(2, 3)` will return
    /// a `Bernoulli` with a 2-in-3 chance, or about 67%, of returning `true`.
    ///
    /// return `true`. If `numerator == 0` it will always return `false`.
    /// For `numerator > denominator` and `denominator == 0`, this returns an
    /// error. Otherwise, for `numerator == denominator`, samples are always
    /// true; for `numerator == 0` samples are always false.
    #[inline]
    pub fn from_ratio(numerator: u32, denominator: u32) -> Result<Bernoulli, BernoulliError> {
        if numerator > denominator || denominator == 0 {
            return Err(BernoulliError::InvalidProbability);
        }
        if numerator == denominator {
            return Ok(Bernoulli { p_int: ALWAYS_TRUE });
        }
        let p_int = ((f64::from(numerator) / f64::from(denominator)) * SCALE) as u64;
        Ok(Bernoulli { p_int })
    }
}

impl Distribution<bool> for Bernoulli {
    #[inline]
    fn sample<R: Rng + ?Sized>(&self, rng: &mut R) -> bool {
        // Make sure to always return true for p = 1.0.
        if self.p_int == ALWAYS_TRUE {
            return true;
        }
        let v: u64 = rng.gen();
        v < self.p_int
    }
}

#[cfg(test)]
mod test {
    use super::Bernoulli;
    use crate::distributions::Distribution;
    use crate::Rng;

    #[test]
    #[cfg(feature="serde1")]
    fn test_serializing_deserializing_bernoulli() {
        let coin_flip = Bernoulli::new(0.5).unwrap();
        let de_coin_flip : Bernoulli = bincode::deserialize(&bincode::serialize(&coin_flip).unwrap()).unwrap();

        assert_eq!(coin_flip.p_int, de_coin_flip.p_int);
    }

    #[test]
    fn test_trivial() {
        // We prefer to be explicit here.
        #![allow(clippy::bool_assert_comparison)]

        let mut r = crate::test::rng(1);
        let always_false = Bernoulli::new(0.0).unwrap();
        let always_true = Bernoulli::new(1.0).unwrap();
        for _ in 0..5 {
            assert_eq!(r.sample::<bool, _>(&always_false), false);
            assert_eq!(r.sample::<bool, _>(&always_true), true);
            assert_eq!(Distribution::<bool>::sample(&always_false, &mut r), false);
            assert_eq!(Distribution::<bool>::sample(&always_true, &mut r), true);
        }
    }

    #[test]
    #[cfg_attr(miri, ignore)] // Miri is too slow
    fn test_average() {
        const P: f64 = 0.3;
        const NUM: u32 = 3;
        const DENOM: u32 = 10;
        let d1 = Bernoulli::new(P).unwrap();
        let d2 = Bernoulli::from_ratio(NUM, DENOM).unwrap();
        const N: u32 = 100_000;

        let mut sum1: u32 = 0;
        let mut sum2: u32 = 0;
        let mut rng = crate::test::rng(2);
        for _ in 0..N {
            if d1.sample(&mut rng) {
                sum1 += 1;
            }
            if d2.sample(&mut rng) {
                sum2 += 1;
            }
        }
        let avg1 = (sum1 as f64) / (N as f64);
        assert!((avg1 - P).abs() < 5e-3);

        let avg2 = (sum2 as f64) / (N as f64);
        assert!((avg2 - (NUM as f64) / (DENOM as f64)).abs() < 5e-3);
    }

    #[test]
    fn value_stability() {
        let mut rng = crate::test::rng(3);
        let distr = Bernoulli::new(0.4532).unwrap();
        let mut buf = [false; 10];
        for x in &mut buf {
            *x = rng.sample(&distr);
        }
        assert_eq!(buf, [
            true, false, false, true, false, false, true, true, true, true
        ]);
    }

    #[test]
    fn bernoulli_distributions_can_be_compared() {
        assert_eq!(Bernoulli::new(1.0), Bernoulli::new(1.0));
    }
}
