// Copyright 2018 Developers of the Rand project.
//
// Licensed under the Apache License, Version 2.0 <LICENSE-APACHE or
// https://www.apache.org/licenses/LICENSE-2.0> or the MIT license
// <LICENSE-MIT or https://opensource.org/licenses/MIT>, at your
// option. This file may not be copied, modified, or distributed
// except according to those terms.

//! The implementations of the `Standard` distribution for integer types.

use crate::distributions::{Distribution, Standard};
use crate::Rng;
use core::num::{NonZeroU16, NonZeroU32, NonZeroU64, NonZeroU8, NonZeroUsize,
    NonZeroU128};

impl Distribution<u8> for Standard {
    #[inline]
    fn sample<R: Rng + ?Sized>(&self, rng: &mut R) -> u8 {
        rng.next_u32() as u8
    }
}

impl Distribution<u16> for Standard {
    #[inline]
    fn sample<R: Rng + ?Sized>(&self, rng: &mut R) -> u16 {
        rng.next_u32() as u16
    }
}

impl Distribution<u32> for Standard {
    #[inline]
    fn sample<R: Rng + ?Sized>(&self, rng: &mut R) -> u32 {
        rng.next_u32()
    }
}

impl Distribution<u64> for Standard {
    #[inline]
    fn sample<R: Rng + ?Sized>(&self, rng: &mut R) -> u64 {
        rng.next_u64()
    }
}

impl Distribution<u128> for Standard {
    #[inline]
    fn sample<R: Rng + ?Sized>(&self, rng: &mut R) -> u128 {
        // Use LE; we explicitly generate one value before the next.
        let x = u128::from(rng.next_u64());
        let y = u128::from(rng.next_u64());
        (y << 64) | x
    }
}

impl Distribution<usize> for Standard {
    #[inline]
    #[cfg(any(target_pointer_width = "32", target_pointer_width = "16"))]
    fn sample<R: Rng + ?Sized>(&self, rng: &mut R) -> usize {
        rng.next_u32() as usize
    }

    #[inline]
    #[cfg(target_pointer_width = "64")]
    fn sample<R: Rng + ?Sized>(&self, rng: &mut R) -> usize {
        rng.next_u64() as usize
    }
}

macro_rules! impl_int_from_uint {
    ($ty:ty, $uty:ty) => {
        impl Distribution<$ty> for Standard {
            #[inline]
            fn sample<R: Rng + ?Sized>(&self, rng: &mut R) -> $ty {
                rng.gen::<$uty>() as $ty
            }
        }
    };
}

impl_int_from_uint! { i8, u8 }
impl_int_from_uint! { i16, u16 }
impl_int_from_uint! { i32, u32 }
impl_int_from_uint! { i64, u64 }
impl_int_from_uint! { i128, u128 }
impl_int_from_uint! { isize, usize }

macro_rules! impl_nzint {
    ($ty:ty, $new:path) => {
        impl Distribution<$ty> for Standard {
            fn sample<R: Rng + ?Sized>(&self, rng: &mut R) -> $ty {
                loop {
                    if let Some(nz) = $new(rng.gen()) {
                        break nz;
                    }
                }
            }
        }
    };
}

impl_nzint!(NonZeroU8, NonZeroU8::new);
impl_nzint!(NonZeroU16, NonZeroU16::new);
impl_nzint!(NonZeroU32, NonZeroU32::new);
impl_nzint!(NonZeroU64, NonZeroU64::new);
impl_nzint!(NonZeroU128, NonZeroU128::new);
impl_nzint!(NonZeroUsize, NonZeroUsize::new);

#[cfg(test)]
mod tests {
    use super::*;

    #[test]
    fn test_integers() {
        let mut rng = crate::test::rng(806);

        rng.sample::<isize, _>(Standard);
        rng.sample::<i8, _>(Standard);
        rng.sample::<i16, _>(Standard);
        rng.sample::<i32, _>(Standard);
        rng.sample::<i64, _>(Standard);
        rng.sample::<i128, _>(Standard);

        rng.sample::<usize, _>(Standard);
        rng.sample::<u8, _>(Standard);
        rng.sample::<u16, _>(Standard);
        rng.sample::<u32, _>(Standard);
        rng.sample::<u64, _>(Standard);
        rng.sample::<u128, _>(Standard);
    }

    #[test]
    fn value_stability() {
        fn test_samples<T: Copy + core::fmt::Debug + PartialEq>(zero: T, expected: &[T])
        where Standard: Distribution<T> {
            let mut rng = crate::test::rng(807);
            let mut buf = [zero; 3];
            for x in &mut buf {
                *x = rng.sample(Standard);
            }
            assert_eq!(&buf, expected);
        }

        test_samples(0u8, &[9, 247, 111]);
        test_samples(0u16, &[32265, 42999, 38255]);
        test_samples(0u32, &[2220326409, 2575017975, 2018088303]);
        test_samples(0u64, &[
            11059617991457472009,
            16096616328739788143,
            1487364411147516184,
        ]);
        test_samples(0u128, &[
            296930161868957086625409848350820761097,
            145644820879247630242265036535529306392,
            111087889832015897993126088499035356354,
        ]);
        #[cfg(any(target_pointer_width = "32", target_pointer_width = "16"))]
        test_samples(0usize, &[2220326409, 2575017975, 2018088303]);
        #[cfg(target_pointer_width = "64")]
        test_samples(0usize, &[
            11059617991457472009,
            16096616328739788143,
            1487364411147516184,
        ]);

        test_samples(0i8, &[9, -9, 111]);
        // Skip further i* types: they are simple reinterpretation of u* samples
    }
}
