// Copyright 2021 Developers of the Rand project.
//
// Licensed under the Apache License, Version 2.0 <LICENSE-APACHE or
// https://www.apache.org/licenses/LICENSE-2.0> or the MIT license
// <LICENSE-MIT or https://opensource.org/licenses/MIT>, at your
// option. This file may not be copied, modified, or distributed
// except according to those terms.

use crate::distributions::{Distribution, Uniform};

/// A distribution to sample items uniformly from a slice.
///
/// [`Slice::new`] constructs a distribution referencing a slice and uniformly
/// samples references from the items in the slice. It may do extra work up
/// front to make sampling of multiple values faster; if only one sample from
/// the slice is required, [`SliceRandom::choose`] can be more efficient.
///
/// Steps are taken to avoid bias which might be present in naive
/// implementations; for example `slice[rng.gen() % slice.len()]` samples from
/// the slice, but may be more likely to select numbers in the low range than
/// other values.
///
/// This distribution samples with replacement; each sample is independent.
/// Sampling without replacement requires state to be retained, and therefore
/// cannot be handled by a distribution; you should instead consider methods
/// on [`SliceRandom`], such as [`SliceRandom::choose_multiple`].
///
/// # Example
///
/// ```
/// use rand::Rng;
/// use rand::distributions::Slice;
///
/// let vowels = ['a', 'e', 'i', 'o', 'u'];
/// let vowels_dist = Slice::new(&vowels).unwrap();
/// let rng = rand::thread_rng();
///
/// // build a string of 10 vowels
/// let vowel_string: String = rng
///     .sample_iter(&vowels_dist)
///     .take(10)
///     .collect();
///
/// println!("{}", vowel_string);
/// assert_eq!(vowel_string.len(), 10);
/// assert!(vowel_string.chars().all(|c| vowels.contains(&c)));
/// ```
///
/// For a single sample, [`SliceRandom::choose`][crate::seq::SliceRandom::choose]
/// may be preferred:
///
/// ```
/// use rand::seq::SliceRandom;
///
/// let vowels = ['a', 'e', 'i', 'o', 'u'];
/// let mut rng = rand::thread_rng();
///
/// println!("{}", vowels.choose(&mut rng).unwrap())
/// ```
///
/// [`SliceRandom`]: crate::seq::SliceRandom
/// [`SliceRandom::choose`]: crate::seq::SliceRandom::choose
/// [`SliceRandom::choose_multiple`]: crate::seq::SliceRandom::choose_multiple
#[derive(Debug, Clone, Copy)]
pub struct Slice<'a, T> {
    slice: &'a [T],
    range: Uniform<usize>,
}

impl<'a, T> Slice<'a, T> {
    /// Create a new `Slice` instance which samples uniformly from the slice.
    /// Returns `Err` if the slice is empty.
    pub fn new(slice: &'a [T]) -> Result<Self, EmptySlice> {
        match slice.len() {
            0 => Err(EmptySlice),
            len => Ok(Self {
                slice,
                range: Uniform::new(0, len),
            }),
        }
    }
}

impl<'a, T> Distribution<&'a T> for Slice<'a, T> {
    fn sample<R: crate::Rng + ?Sized>(&self, rng: &mut R) -> &'a T {
        let idx = self.range.sample(rng);

        debug_assert!(
            idx < self.slice.len(),
            "Uniform::new(0, {}) somehow returned {}",
            self.slice.len(),
            idx
        );

        // Safety: at construction time, it was ensured that the slice was
        // non-empty, and that the `Uniform` range produces values in range
        // for the slice
        unsafe { self.slice.get_unchecked(idx) }
    }
}

/// Error type indicating that a [`Slice`] distribution was improperly
/// constructed with an empty slice.
#[derive(Debug, Clone, Copy)]
pub struct EmptySlice;

impl core::fmt::Display for EmptySlice {
    fn fmt(&self, f: &mut core::fmt::Formatter<'_>) -> core::fmt::Result {
        write!(
            f,
            "Tried to create a `distributions::Slice` with an empty slice"
        )
    }
}

#[cfg(feature = "std")]
impl std::error::Error for EmptySlice {}
