// Copyright 2018 Developers of the Rand project.
//
// Licensed under the Apache License, Version 2.0 <LICENSE-APACHE or
// https://www.apache.org/licenses/LICENSE-2.0> or the MIT license
// <LICENSE-MIT or https://opensource.org/licenses/MIT>, at your
// option. This file may not be copied, modified, or distributed
// except according to those terms.

//! Math helper functions


pub(crate) trait WideningMultiply<RHS = Self> {
    type Output;

    fn wmul(self, x: RHS) -> Self::Output;
}

macro_rules! wmul_impl {
    ($ty:ty, $wide:ty, $shift:expr) => {
        impl WideningMultiply for $ty {
            type Output = ($ty, $ty);

            #[inline(always)]
            fn wmul(self, x: $ty) -> Self::Output {
                let tmp = (self as $wide) * (x as $wide);
                ((tmp >> $shift) as $ty, tmp as $ty)
            }
        }
    };

    // simd bulk implementation
    ($(($ty:ident, $wide:ident),)+, $shift:expr) => {
        $(
            impl WideningMultiply for $ty {
                type Output = ($ty, $ty);

                #[inline(always)]
                fn wmul(self, x: $ty) -> Self::Output {
                    // For supported vectors, this should compile to a couple
                    // supported multiply & swizzle instructions (no actual
                    // casting).
                    // TODO: optimize
                    let y: $wide = self.cast();
                    let x: $wide = x.cast();
                    let tmp = y * x;
                    let hi: $ty = (tmp >> $shift).cast();
                    let lo: $ty = tmp.cast();
                    (hi, lo)
                }
            }
        )+
    };
}
wmul_impl! { u8, u16, 8 }
wmul_impl! { u16, u32, 16 }
wmul_impl! { u32, u64, 32 }
wmul_impl! { u64, u128, 64 }

// This code is a translation of the __mulddi3 function in LLVM's
// compiler-rt. It is an optimised variant of the common method
// `(a + b) * (c + d) = ac + ad + bc + bd`.
//
// For some reason LLVM can optimise the C version very well, but
// keeps shuffling registers in this Rust translation.
macro_rules! wmul_impl_large {
    ($ty:ty, $half:expr) => {
        impl WideningMultiply for $ty {
            type Output = ($ty, $ty);

            #[inline(always)]
            fn wmul(self, b: $ty) -> Self::Output {
                const LOWER_MASK: $ty = !0 >> $half;
                let mut low = (self & LOWER_MASK).wrapping_mul(b & LOWER_MASK);
                let mut t = low >> $half;
                low &= LOWER_MASK;
                t += (self >> $half).wrapping_mul(b & LOWER_MASK);
                low += (t & LOWER_MASK) << $half;
                let mut high = t >> $half;
                t = low >> $half;
                low &= LOWER_MASK;
                t += (b >> $half).wrapping_mul(self & LOWER_MASK);
                low += (t & LOWER_MASK) << $half;
                high += t >> $half;
                high += (self >> $half).wrapping_mul(b >> $half);

                (high, low)
            }
        }
    };

    // simd bulk implementation
    (($($ty:ty,)+) $scalar:ty, $half:expr) => {
        $(
            impl WideningMultiply for $ty {
                type Output = ($ty, $ty);

                #[inline(always)]
                fn wmul(self, b: $ty) -> Self::Output {
                    // needs wrapping multiplication
                    const LOWER_MASK: $scalar = !0 >> $half;
                    let mut low = (self & LOWER_MASK) * (b & LOWER_MASK);
                    let mut t = low >> $half;
                    low &= LOWER_MASK;
                    t += (self >> $half) * (b & LOWER_MASK);
                    low += (t & LOWER_MASK) << $half;
                    let mut high = t >> $half;
                    t = low >> $half;
                    low &= LOWER_MASK;
                    t += (b >> $half) * (self & LOWER_MASK);
                    low += (t & LOWER_MASK) << $half;
                    high += t >> $half;
                    high += (self >> $half) * (b >> $half);

                    (high, low)
                }
            }
        )+
    };
}
wmul_impl_large! { u128, 64 }

macro_rules! wmul_impl_usize {
    ($ty:ty) => {
        impl WideningMultiply for usize {
            type Output = (usize, usize);

            #[inline(always)]
            fn wmul(self, x: usize) -> Self::Output {
                let (high, low) = (self as $ty).wmul(x as $ty);
                (high as usize, low as usize)
            }
        }
    };
}
#[cfg(target_pointer_width = "16")]
wmul_impl_usize! { u16 }
#[cfg(target_pointer_width = "32")]
wmul_impl_usize! { u32 }
#[cfg(target_pointer_width = "64")]
wmul_impl_usize! { u64 }

/// Helper trait when dealing with scalar and SIMD floating point types.
pub(crate) trait FloatSIMDUtils {
    // `PartialOrd` for vectors compares lexicographically. We want to compare all
    // the individual SIMD lanes instead, and get the combined result over all
    // lanes. This is possible using something like `a.lt(b).all()`, but we
    // implement it as a trait so we can write the same code for `f32` and `f64`.
    // Only the comparison functions we need are implemented.
    fn all_lt(self, other: Self) -> bool;
    fn all_le(self, other: Self) -> bool;
    fn all_finite(self) -> bool;

    type Mask;
    fn finite_mask(self) -> Self::Mask;
    fn gt_mask(self, other: Self) -> Self::Mask;
    fn ge_mask(self, other: Self) -> Self::Mask;

    // Decrease all lanes where the mask is `true` to the next lower value
    // representable by the floating-point type. At least one of the lanes
    // must be set.
    fn decrease_masked(self, mask: Self::Mask) -> Self;

    // Convert from int value. Conversion is done while retaining the numerical
    // value, not by retaining the binary representation.
    type UInt;
    fn cast_from_int(i: Self::UInt) -> Self;
}

/// Implement functions available in std builds but missing from core primitives
#[cfg(not(feature = "std"))]
#[allow(unused)]
// False positive: We are following `std` here.
#[allow(clippy::wrong_self_convention)]
pub(crate) trait Float: Sized {
    fn is_nan(self) -> bool;
    fn is_infinite(self) -> bool;
    fn is_finite(self) -> bool;
}

/// Implement functions on f32/f64 to give them APIs similar to SIMD types
#[allow(unused)]
pub(crate) trait FloatAsSIMD: Sized {
    #[inline(always)]
    fn lanes() -> usize {
        1
    }
    #[inline(always)]
    fn splat(scalar: Self) -> Self {
        scalar
    }
    #[inline(always)]
    fn extract(self, index: usize) -> Self {
        debug_assert_eq!(index, 0);
        self
    }
    #[inline(always)]
    fn replace(self, index: usize, new_value: Self) -> Self {
        debug_assert_eq!(index, 0);
        new_value
    }
}

#[allow(unused)]
pub(crate) trait BoolAsSIMD: Sized {
    fn any(self) -> bool;
    fn all(self) -> bool;
    fn none(self) -> bool;
}

impl BoolAsSIMD for bool {
    #[inline(always)]
    fn any(self) -> bool {
        self
    }

    #[inline(always)]
    fn all(self) -> bool {
        self
    }

    #[inline(always)]
    fn none(self) -> bool {
        !self
    }
}

macro_rules! scalar_float_impl {
    ($ty:ident, $uty:ident) => {
        #[cfg(not(feature = "std"))]
        impl Float for $ty {
            #[inline]
            fn is_nan(self) -> bool {
                self != self
            }

            #[inline]
            fn is_infinite(self) -> bool {
                self == ::core::$ty::INFINITY || self == ::core::$ty::NEG_INFINITY
            }

            #[inline]
            fn is_finite(self) -> bool {
                !(self.is_nan() || self.is_infinite())
            }
        }

        impl FloatSIMDUtils for $ty {
            type Mask = bool;
            type UInt = $uty;

            #[inline(always)]
            fn all_lt(self, other: Self) -> bool {
                self < other
            }

            #[inline(always)]
            fn all_le(self, other: Self) -> bool {
                self <= other
            }

            #[inline(always)]
            fn all_finite(self) -> bool {
                self.is_finite()
            }

            #[inline(always)]
            fn finite_mask(self) -> Self::Mask {
                self.is_finite()
            }

            #[inline(always)]
            fn gt_mask(self, other: Self) -> Self::Mask {
                self > other
            }

            #[inline(always)]
            fn ge_mask(self, other: Self) -> Self::Mask {
                self >= other
            }

            #[inline(always)]
            fn decrease_masked(self, mask: Self::Mask) -> Self {
                debug_assert!(mask, "At least one lane must be set");
                <$ty>::from_bits(self.to_bits() - 1)
            }

            #[inline]
            fn cast_from_int(i: Self::UInt) -> Self {
                i as $ty
            }
        }

        impl FloatAsSIMD for $ty {}
    };
}

scalar_float_impl!(f32, u32);
scalar_float_impl!(f64, u64);
