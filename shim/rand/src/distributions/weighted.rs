// Copyright 2018 Developers of the Rand project.
//
// Licensed under the Apache License, Version 2.0 <LICENSE-APACHE or
// https://www.apache.org/licenses/LICENSE-2.0> or the MIT license
// <LICENSE-MIT or https://opensource.org/licenses/MIT>, at your
// option. This file may not be copied, modified, or distributed
// except according to those terms.

//! Weighted index sampling
//!
//! This module is deprecated. Use [`crate::distributions::WeightedIndex`] and
//! [`crate::distributions::WeightedError`] instead.

pub use super::{WeightedIndex, WeightedError};

#[allow(missing_docs)]
#[deprecated(since = "0.8.0", note = "moved to rand_distr crate")]
pub mod alias_method {
    // This module exists to provide a deprecation warning which minimises
    // compile errors, but still fails to compile if ever used.
    use core::marker::PhantomData;
    use alloc::vec::Vec;
    use super::WeightedError;

    #[derive(Debug)]
    pub struct WeightedIndex<W: Weight> {
        _phantom: PhantomData<W>,
    }
    impl<W: Weight> WeightedIndex<W> {
        pub fn new(_weights: Vec<W>) -> Result<Self, WeightedError> {
            Err(WeightedError::NoItem)
        }
    }

    pub trait Weight {}
    macro_rules! impl_weight {
        () => {};
        ($T:ident, $($more:ident,)*) => {
            impl Weight for $T {}
            impl_weight!($($more,)*);
        };
    }
    impl_weight!(f64, f32,);
    impl_weight!(u8, u16, u32, u64, usize,);
    impl_weight!(i8, i16, i32, i64, isize,);
    impl_weight!(u128, i128,);
}
