// Copyright 2018 Developers of the Rand project.
// Copyright 2013-2017 The Rust Project Developers.
//
// Licensed under the Apache License, Version 2.0 <LICENSE-APACHE or
// https://www.apache.org/licenses/LICENSE-2.0> or the MIT license
// <LICENSE-MIT or https://opensource.org/licenses/MIT>, at your
// option. This file may not be copied, modified, or distributed
// except according to those terms.

//! Generating random samples from probability distributions
//!
//! This module is the home of the [`Distribution`] trait and several of its
//! implementations. It is the workhorse behind some of the convenient
//! functionality of the [`Rng`] trait, e.g. [`Rng::gen`] and of course
//! [`Rng::sample`].
//!
//! Abstractly, a [probability distribution] describes the probability of
//! occurrence of each value in its sample space.
//!
//! More concretely, an implementation of `Distribution<T>` for type `X` is an
//! algorithm for choosing values from the sample space (a subset of `T`)
//! according to the distribution `X` represents, using an external source of
//! randomness (an RNG supplied to the `sample` function).
//!
//! A type `X` may implement `Distribution<T>` for multiple types `T`.
//! Any type implementing [`Distribution`] is stateless (i.e. immutable),
//! but it may have internal parameters set at construction time (for example,
//! [`Uniform`] allows specification of its sample space as a range within `T`).
//!
//!
//! # The `Standard` distribution
//!
//! The [`Standard`] distribution is important to mention. This is the
//! distribution used by [`Rng::gen`] and represents the "default" way to
//! produce a random value for many different types, including most primitive
//! types, tuples, arrays, and a few derived types. See the documentation of
//! [`Standard`] for more details.
//!
//! Implementing `Distribution<T>` for [`Standard`] for user types `T` makes it
//! possible to generate type `T` with [`Rng::gen`], and by extension also
//! with the [`random`] function.
//!
//! ## Random characters
//!
//! [`Alphanumeric`] is a simple distribution to sample random letters and
//! numbers of the `char` type; in contrast [`Standard`] may sample any valid
//! `char`.
//!
//!
//! # Uniform numeric ranges
//!
//! The [`Uniform`] distribution is more flexible than [`Standard`], but also
//! more specialised: it supports fewer target types, but allows the sample
//! space to be specified as an arbitrary range within its target type `T`.
//! Both [`Standard`] and [`Uniform`] are in some sense uniform distributions.
//!
//! Values may be sampled from this distribution using `Rng::sample(Range)` or
//! by creating a distribution object with [`Uniform::new`],
//! [`Uniform::new_inclusive`] or `From<Range>`. When the range limits are not
//! known at compile time it is typically faster to reuse an existing
//! `Uniform` object than to call `Rng::sample(Range)`.
//!
//! User types `T` may also implement `Distribution<T>` for [`Uniform`],
//! although this is less straightforward than for [`Standard`] (see the
//! documentation in the [`uniform`] module). Doing so enables generation of
//! values of type `T` with  `Rng::sample(Range)`.
//!
//! ## Open and half-open ranges
//!
//! There are surprisingly many ways to uniformly generate random floats. A
//! range between 0 and 1 is standard, but the exact bounds (open vs closed)
//! and accuracy differ. In addition to the [`Standard`] distribution Rand offers
//! [`Open01`] and [`OpenClosed01`]. See "Floating point implementation" section of
//! [`Standard`] documentation for more details.
//!
//! # Non-uniform sampling
//!
//! Sampling a simple true/false outcome with a given probability has a name:
//! the [`Bernoulli`] distribution (this is used by [`Rng::gen_bool`]).
//!
//! For weighted sampling from a sequence of discrete values, use the
//! [`WeightedIndex`] distribution.
//!
//! This crate no longer includes other non-uniform distributions; instead
//! it is recommended that you use either [`rand_distr`] or [`statrs`].
//!
//!
//! [probability distribution]: https://en.wikipedia.org/wiki/Probability_distribution
//! [`rand_distr`]: https://crates.io/crates/rand_distr
//! [`statrs`]: https://crates.io/crates/statrs

//! [`random`]: crate::random
//! [`rand_distr`]: https://crates.io/crates/rand_distr
//! [`statrs`]: https://crates.io/crates/statrs

mod bernoulli;
mod distribution;
mod float;
mod integer;
mod other;
mod slice;
mod utils;
#[cfg(feature = "alloc")]
mod weighted_index;

#[doc(hidden)]
pub mod hidden_export {
    pub use super::float::IntoFloat; // used by rand_distr
}
pub mod uniform;
#[deprecated(
    since = "0.8.0",
    note = "use rand::distributions::{WeightedIndex, WeightedError} instead"
)]
#[cfg(feature = "alloc")]
#[cfg_attr(docsrs, doc(cfg(feature = "alloc")))]
pub mod weighted;

pub use self::bernoulli::{Bernoulli, BernoulliError};
pub use self::distribution::{Distribution, DistIter, DistMap};
#[cfg(feature = "alloc")]
pub use self::distribution::DistString;
pub use self::float::{Open01, OpenClosed01};
pub use self::other::Alphanumeric;
pub use self::slice::Slice;
#[doc(inline)]
pub use self::uniform::Uniform;
#[cfg(feature = "alloc")]
pub use self::weighted_index::{WeightedError, WeightedIndex};

#[allow(unused)]
use crate::Rng;

/// A generic random value distribution, implemented for many primitive types.
/// Usually generates values with a numerically uniform distribution, and with a
/// range appropriate to the type.
///
/// ## Provided implementations
///
/// Assuming the provided `Rng` is well-behaved, these implementations
/// generate values with the following ranges and distributions:
///
/// * Integers (`i32`, `u32`, `isize`, `usize`, etc.): Uniformly distributed
///   over all values of the type.
/// * `char`: Uniformly distributed over all Unicode scalar values, i.e. all
///   code points in the range `0...0x10_FFFF`, except for the range
///   `0xD800...0xDFFF` (the surrogate code points). This includes
///   unassigned/reserved code points.
/// * `bool`: Generates `false` or `true`, each with probability 0.5.
/// * Floating point types (`f32` and `f64`): Uniformly distributed in the
///   half-open range `[0, 1)`. See notes below.
/// * Wrapping integers (`Wrapping<T>`), besides the type identical to their
///   normal integer variants.
///
/// The `Standard` distribution also supports generation of the following
/// compound types where all component types are supported:
///
/// *   Tuples (up to 12 elements): each element is generated sequentially.
/// *   Arrays (up to 32 elements): each element is generated sequentially;
///     see also [`Rng::fill`] which supports arbitrary array length for integer
///     and float types and tends to be faster for `u32` and smaller types.
///     When using `rustc` ≥ 1.51, enable the `min_const_gen` feature to support
///     arrays larger than 32 elements.
///     Note that [`Rng::fill`] and `Standard`'s array support are *not* equivalent:
///     the former is optimised for integer types (using fewer RNG calls for
///     element types smaller than the RNG word size), while the latter supports
///     any element type supported by `Standard`.
/// *   `Option<T>` first generates a `bool`, and if true generates and returns
///     `Some(value)` where `value: T`, otherwise returning `None`.
///
/// ## Custom implementations
///
/// The [`Standard`] distribution may be implemented for user types as follows:
///
/// ```
/// # #![allow(dead_code)]
/// use rand::Rng;
/// use rand::distributions::{Distribution, Standard};
///
/// struct MyF32 {
///     x: f32,
/// }
///
/// impl Distribution<MyF32> for Standard {
///     fn sample<R: Rng + ?Sized>(&self, rng: &mut R) -> MyF32 {
///         MyF32 { x: rng.gen() }
///     }
/// }
/// ```
///
/// ## Example usage
/// ```
/// use rand::prelude::*;
/// use rand::distributions::Standard;
///
/// let val: f32 = StdRng::from_entropy().sample(Standard);
/// println!("f32 from [0, 1): {}", val);
/// ```
///
/// # Floating point implementation
/// The floating point implementations for `Standard` generate a random value in
/// the half-open interval `[0, 1)`, i.e. including 0 but not 1.
///
/// All values that can be generated are of the form `n * ε/2`. For `f32`
/// the 24 most significant random bits of a `u32` are used and for `f64` the
/// 53 most significant bits of a `u64` are used. The conversion uses the
/// multiplicative method: `(rng.gen::<$uty>() >> N) as $ty * (ε/2)`.
///
/// See also: [`Open01`] which samples from `(0, 1)`, [`OpenClosed01`] which
/// samples from `(0, 1]` and `Rng::gen_range(0..1)` which also samples from
/// `[0, 1)`. Note that `Open01` uses transmute-based methods which yield 1 bit
/// less precision but may perform faster on some architectures (on modern Intel
/// CPUs all methods have approximately equal performance).
///
/// [`Uniform`]: uniform::Uniform
#[derive(Clone, Copy, Debug)]
#[cfg_attr(feature = "serde1", derive(serde::Serialize, serde::Deserialize))]
pub struct Standard;
