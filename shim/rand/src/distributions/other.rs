// Copyright 2018 Developers of the Rand project.
//
// Licensed under the Apache License, Version 2.0 <LICENSE-APACHE or
// https://www.apache.org/licenses/LICENSE-2.0> or the MIT license
// <LICENSE-MIT or https://opensource.org/licenses/MIT>, at your
// option. This file may not be copied, modified, or distributed
// except according to those terms.

//! The implementations of the `Standard` distribution for other built-in types.

use core::char;
use core::num::Wrapping;
#[cfg(feature = "alloc")]
use alloc::string::String;

use crate::distributions::{Distribution, Standard, Uniform};
#[cfg(feature = "alloc")]
use crate::distributions::DistString;
use crate::Rng;

#[cfg(feature = "serde1")]
use serde::{Serialize, Deserialize};
#[cfg(feature = "min_const_gen")]
use core::mem::{self, MaybeUninit};


// ----- Sampling distributions -----

/// Sample a `u8`, uniformly distributed over ASCII letters and numbers:
/// a-z, A-Z and 0-9.
///
/// # Example
///
/// ```
/// use rand::{Rng, thread_rng};
/// use rand::distributions::Alphanumeric;
///
/// let mut rng = thread_rng();
/// let chars: String = (0..7).map(|_| rng.sample(Alphanumeric) as char).collect();
/// println!("Random chars: {}", chars);
/// ```
///
/// The [`DistString`] trait provides an easier method of generating
/// a random `String`, and offers more efficient allocation:
/// ```
/// use rand::distributions::{Alphanumeric, DistString};
/// let string = Alphanumeric.sample_string(&mut rand::thread_rng(), 16);
/// println!("Random string: {}", string);
/// ```
///
/// # Passwords
///
/// Users sometimes ask whether it is safe to use a string of random characters
/// as a password. In principle, all RNGs in Rand implementing `CryptoRng` are
/// suitable as a source of randomness for generating passwords (if they are
/// properly seeded), but it is more conservative to only use randomness
/// directly from the operating system via the `getrandom` crate, or the
/// corresponding bindings of a crypto library.
///
/// When generating passwords or keys, it is important to consider the threat
/// model and in some cases the memorability of the password. This is out of
/// scope of the Rand project, and therefore we defer to the following
/// references:
///
/// - [Wikipedia article on Password Strength](https://en.wikipedia.org/wiki/Password_strength)
/// - [Diceware for generating memorable passwords](https://en.wikipedia.org/wiki/Diceware)
#[derive(Debug, Clone, Copy)]
#[cfg_attr(feature = "serde1", derive(Serialize, Deserialize))]
pub struct Alphanumeric;


// ----- Implementations of distributions -----

impl Distribution<char> for Standard {
    #[inline]
    fn sample<R: Rng + ?Sized>(&self, rng: &mut R) -> char {
        // A valid `char` is either in the interval `[0, 0xD800)` or
        // `(0xDFFF, 0x11_0000)`. All `char`s must therefore be in
        // `[0, 0x11_0000)` but not in the "gap" `[0xD800, 0xDFFF]` which is
        // reserved for surrogates. This is the size of that gap.
        const GAP_SIZE: u32 = 0xDFFF - 0xD800 + 1;

        // Uniform::new(0, 0x11_0000 - GAP_SIZE) can also be used but it
        // seemed slower.
        let range = Uniform::new(GAP_SIZE, 0x11_0000);

        let mut n = range.sample(rng);
        if n <= 0xDFFF {
            n -= GAP_SIZE;
        }
        unsafe { char::from_u32_unchecked(n) }
    }
}

/// Note: the `String` is potentially left with excess capacity; optionally the
/// user may call `string.shrink_to_fit()` afterwards.
#[cfg(feature = "alloc")]
impl DistString for Standard {
    fn append_string<R: Rng + ?Sized>(&self, rng: &mut R, s: &mut String, len: usize) {
        // A char is encoded with at most four bytes, thus this reservation is
        // guaranteed to be sufficient. We do not shrink_to_fit afterwards so
        // that repeated usage on the same `String` buffer does not reallocate.
        s.reserve(4 * len);
        s.extend(Distribution::<char>::sample_iter(self, rng).take(len));
    }
}

impl Distribution<u8> for Alphanumeric {
    fn sample<R: Rng + ?Sized>(&self, rng: &mut R) -> u8 {
        const RANGE: u32 = 26 + 26 + 10;
        const GEN_ASCII_STR_CHARSET: &[u8] = b"ABCDEFGHIJKLMNOPQRSTUVWXYZ\
                abcdefghijklmnopqrstuvwxyz\
                0123456789";
        // We can pick from 62 characters. This is so close to a power of 2, 64,
        // that we can do better than `Uniform`. Use a simple bitshift and
        // rejection sampling. We do not use a bitmask, because for small RNGs
        // the most significant bits are usually of higher quality.
        loop {
            let var = rng.next_u32() >> (32 - 6);
            if var < RANGE {
                return GEN_ASCII_STR_CHARSET[var as usize];
            }
        }
    }
}

#[cfg(feature = "alloc")]
impl DistString for Alphanumeric {
    fn append_string<R: Rng + ?Sized>(&self, rng: &mut R, string: &mut String, len: usize) {
        unsafe {
            let v = string.as_mut_vec();
            v.extend(self.sample_iter(rng).take(len));
        }
    }
}

impl Distribution<bool> for Standard {
    #[inline]
    fn sample<R: Rng + ?Sized>(&self, rng: &mut R) -> bool {
        // We can compare against an arbitrary bit of an u32 to get a bool.
        // Because the least significant bits of a lower quality RNG can have
        // simple patterns, we compare against the most significant bit. This is
        // easiest done using a sign test.
        (rng.next_u32() as i32) < 0
    }
}

macro_rules! tuple_impl {
    // use variables to indicate the arity of the tuple
    ($($tyvar:ident),* ) => {
        // the trailing commas are for the 1 tuple
        impl< $( $tyvar ),* >
            Distribution<( $( $tyvar ),* , )>
            for Standard
            where $( Standard: Distribution<$tyvar> ),*
        {
            #[inline]
            fn sample<R: Rng + ?Sized>(&self, _rng: &mut R) -> ( $( $tyvar ),* , ) {
                (
                    // use the $tyvar's to get the appropriate number of
                    // repeats (they're not actually needed)
                    $(
                        _rng.gen::<$tyvar>()
                    ),*
                    ,
                )
            }
        }
    }
}

impl Distribution<()> for Standard {
    #[allow(clippy::unused_unit)]
    #[inline]
    fn sample<R: Rng + ?Sized>(&self, _: &mut R) -> () {
        ()
    }
}
tuple_impl! {A}
tuple_impl! {A, B}
tuple_impl! {A, B, C}
tuple_impl! {A, B, C, D}
tuple_impl! {A, B, C, D, E}
tuple_impl! {A, B, C, D, E, F}
tuple_impl! {A, B, C, D, E, F, G}
tuple_impl! {A, B, C, D, E, F, G, H}
tuple_impl! {A, B, C, D, E, F, G, H, I}
tuple_impl! {A, B, C, D, E, F, G, H, I, J}
tuple_impl! {A, B, C, D, E, F, G, H, I, J, K}
tuple_impl! {A, B, C, D, E, F, G, H, I, J, K, L}

#[cfg(feature = "min_const_gen")]
#[cfg_attr(docsrs, doc(cfg(feature = "min_const_gen")))]
impl<T, const N: usize> Distribution<[T; N]> for Standard
where Standard: Distribution<T>
{
    #[inline]
    fn sample<R: Rng + ?Sized>(&self, _rng: &mut R) -> [T; N] {
        let mut buff: [MaybeUninit<T>; N] = unsafe { MaybeUninit::uninit().assume_init() };

        for elem in &mut buff {
            *elem = MaybeUninit::new(_rng.gen());
        }

        unsafe { mem::transmute_copy::<_, _>(&buff) }
    }
}

#[cfg(not(feature = "min_const_gen"))]
macro_rules! array_impl {
    // recursive, given at least one type parameter:
    {$n:expr, $t:ident, $($ts:ident,)*} => {
        array_impl!{($n - 1), $($ts,)*}

        impl<T> Distribution<[T; $n]> for Standard where Standard: Distribution<T> {
            #[inline]
            fn sample<R: Rng + ?Sized>(&self, _rng: &mut R) -> [T; $n] {
                [_rng.gen::<$t>(), $(_rng.gen::<$ts>()),*]
            }
        }
    };
    // empty case:
    {$n:expr,} => {
        impl<T> Distribution<[T; $n]> for Standard {
            fn sample<R: Rng + ?Sized>(&self, _rng: &mut R) -> [T; $n] { [] }
        }
    };
}

#[cfg(not(feature = "min_const_gen"))]
array_impl! {32, T, T, T, T, T, T, T, T, T, T, T, T, T, T, T, T, T, T, T, T, T, T, T, T, T, T, T, T, T, T, T, T,}

impl<T> Distribution<Option<T>> for Standard
where Standard: Distribution<T>
{
    #[inline]
    fn sample<R: Rng + ?Sized>(&self, rng: &mut R) -> Option<T> {
        // UFCS is needed here: https://github.com/rust-lang/rust/issues/24066
        if rng.gen::<bool>() {
            Some(rng.gen())
        } else {
            None
        }
    }
}

impl<T> Distribution<Wrapping<T>> for Standard
where Standard: Distribution<T>
{
    #[inline]
    fn sample<R: Rng + ?Sized>(&self, rng: &mut R) -> Wrapping<T> {
        Wrapping(rng.gen())
    }
}


#[cfg(test)]
mod tests {
    use super::*;
    use crate::RngCore;
    #[cfg(feature = "alloc")] use alloc::string::String;

    #[test]
    fn test_misc() {
        let rng: &mut dyn RngCore = &mut crate::test::rng(820);

        rng.sample::<char, _>(Standard);
        rng.sample::<bool, _>(Standard);
    }

    #[cfg(feature = "alloc")]
    #[test]
    fn test_chars() {
        use core::iter;
        let mut rng = crate::test::rng(805);

        // Test by generating a relatively large number of chars, so we also
        // take the rejection sampling path.
        let word: String = iter::repeat(())
            .map(|()| rng.gen::<char>())
            .take(1000)
            .collect();
        assert!(!word.is_empty());
    }

    #[test]
    fn test_alphanumeric() {
        let mut rng = crate::test::rng(806);

        // Test by generating a relatively large number of chars, so we also
        // take the rejection sampling path.
        let mut incorrect = false;
        for _ in 0..100 {
            let c: char = rng.sample(Alphanumeric).into();
            incorrect |= !(('0'..='9').contains(&c) ||
                           ('A'..='Z').contains(&c) ||
                           ('a'..='z').contains(&c) );
        }
        assert!(!incorrect);
    }

    #[test]
    fn value_stability() {
        fn test_samples<T: Copy + core::fmt::Debug + PartialEq, D: Distribution<T>>(
            distr: &D, zero: T, expected: &[T],
        ) {
            let mut rng = crate::test::rng(807);
            let mut buf = [zero; 5];
            for x in &mut buf {
                *x = rng.sample(&distr);
            }
            assert_eq!(&buf, expected);
        }

        test_samples(&Standard, 'a', &[
            '\u{8cdac}',
            '\u{a346a}',
            '\u{80120}',
            '\u{ed692}',
            '\u{35888}',
        ]);
        test_samples(&Alphanumeric, 0, &[104, 109, 101, 51, 77]);
        test_samples(&Standard, false, &[true, true, false, true, false]);
        test_samples(&Standard, None as Option<bool>, &[
            Some(true),
            None,
            Some(false),
            None,
            Some(false),
        ]);
        test_samples(&Standard, Wrapping(0i32), &[
            Wrapping(-2074640887),
            Wrapping(-1719949321),
            Wrapping(2018088303),
            Wrapping(-547181756),
            Wrapping(838957336),
        ]);

        // We test only sub-sets of tuple and array impls
        test_samples(&Standard, (), &[(), (), (), (), ()]);
        test_samples(&Standard, (false,), &[
            (true,),
            (true,),
            (false,),
            (true,),
            (false,),
        ]);
        test_samples(&Standard, (false, false), &[
            (true, true),
            (false, true),
            (false, false),
            (true, false),
            (false, false),
        ]);

        test_samples(&Standard, [0u8; 0], &[[], [], [], [], []]);
        test_samples(&Standard, [0u8; 3], &[
            [9, 247, 111],
            [68, 24, 13],
            [174, 19, 194],
            [172, 69, 213],
            [149, 207, 29],
        ]);
    }
}
