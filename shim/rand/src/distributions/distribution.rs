// Copyright 2018 Developers of the Rand project.
// Copyright 2013-2017 The Rust Project Developers.
//
// Licensed under the Apache License, Version 2.0 <LICENSE-APACHE or
// https://www.apache.org/licenses/LICENSE-2.0> or the MIT license
// <LICENSE-MIT or https://opensource.org/licenses/MIT>, at your
// option. This file may not be copied, modified, or distributed
// except according to those terms.

//! Distribution trait and associates

use crate::Rng;
use core::iter;
#[cfg(feature = "alloc")]
use alloc::string::String;

/// Types (distributions) that can be used to create a random instance of `T`.
///
/// It is possible to sample from a distribution through both the
/// `Distribution` and [`Rng`] traits, via `distr.sample(&mut rng)` and
/// `rng.sample(distr)`. They also both offer the [`sample_iter`] method, which
/// produces an iterator that samples from the distribution.
///
/// All implementations are expected to be immutable; this has the significant
/// advantage of not needing to consider thread safety, and for most
/// distributions efficient state-less sampling algorithms are available.
///
/// Implementations are typically expected to be portable with reproducible
/// results when used with a PRNG with fixed seed; see the
/// [portability chapter](https://rust-random.github.io/book/portability.html)
/// of The Rust Rand Book. In some cases this does not apply, e.g. the `usize`
/// type requires different sampling on 32-bit and 64-bit machines.
///
/// [`sample_iter`]: Distribution::sample_iter
pub trait Distribution<T> {
    /// Generate a random value of `T`, using `rng` as the source of randomness.
    fn sample<R: Rng + ?Sized>(&self, rng: &mut R) -> T;

    /// Create an iterator that generates random values of `T`, using `rng` as
    /// the source of randomness.
    ///
    /// Note that this function takes `self` by value. This works since
    /// `Distribution<T>` is impl'd for `&D` where `D: Distribution<T>`,
    /// however borrowing is not automatic hence `distr.sample_iter(...)` may
    /// need to be replaced with `(&distr).sample_iter(...)` to borrow or
    /// `(&*distr).sample_iter(...)` to reborrow an existing reference.
    ///
    /// # Example
    ///
    /// ```
    /// use rand::thread_rng;
    /// use rand::distributions::{Distribution, Alphanumeric, Uniform, Standard};
    ///
    /// let mut rng = thread_rng();
    ///
    /// // Vec of 16 x f32:
    /// let v: Vec<f32> = Standard.sample_iter(&mut rng).take(16).collect();
    ///
    /// // String:
    /// let s: String = Alphanumeric
    ///     .sample_iter(&mut rng)
    ///     .take(7)
    ///     .map(char::from)
    ///     .collect();
    ///
    /// // Dice-rolling:
    /// let die_range = Uniform::new_inclusive(1, 6);
    /// let mut roll_die = die_range.sample_iter(&mut rng);
    /// while roll_die.next().unwrap() != 6 {
    ///     println!("Not a 6; rolling again!");
    /// }
    /// ```
    fn sample_iter<R>(self, rng: R) -> DistIter<Self, R, T>
    where
        R: Rng,
        Self: Sized,
    {
        DistIter {
            distr: self,
            rng,
            phantom: ::core::marker::PhantomData,
        }
    }

    /// Create a distribution of values of 'S' by mapping the output of `Self`
    /// through the closure `F`
    ///
    /// # Example
    ///
    /// ```
    /// use rand::thread_rng;
    /// use rand::distributions::{Distribution, Uniform};
    ///
    /// let mut rng = thread_rng();
    ///
    /// let die = Uniform::new_inclusive(1, 6);
    /// let even_number = die.map(|num| num % 2 == 0);
    /// while !even_number.sample(&mut rng) {
    ///     println!("Still odd; rolling again!");
    /// }
    /// ```
    fn map<F, S>(self, func: F) -> DistMap<Self, F, T, S>
    where
        F: Fn(T) -> S,
        Self: Sized,
    {
        DistMap {
            distr: self,
            func,
            phantom: ::core::marker::PhantomData,
        }
    }
}

impl<'a, T, D: Distribution<T>> Distribution<T> for &'a D {
    fn sample<R: Rng + ?Sized>(&self, rng: &mut R) -> T {
        (*self).sample(rng)
    }
}

/// An iterator that generates random values of `T` with distribution `D`,
/// using `R` as the source of randomness.
///
/// This `struct` is created by the [`sample_iter`] method on [`Distribution`].
/// See its documentation for more.
///
/// [`sample_iter`]: Distribution::sample_iter
#[derive(Debug)]
pub struct DistIter<D, R, T> {
    distr: D,
    rng: R,
    phantom: ::core::marker::PhantomData<T>,
}

impl<D, R, T> Iterator for DistIter<D, R, T>
where
    D: Distribution<T>,
    R: Rng,
{
    type Item = T;

    #[inline(always)]
    fn next(&mut self) -> Option<T> {
        // Here, self.rng may be a reference, but we must take &mut anyway.
        // Even if sample could take an R: Rng by value, we would need to do this
        // since Rng is not copyable and we cannot enforce that this is "reborrowable".
        Some(self.distr.sample(&mut self.rng))
    }

    fn size_hint(&self) -> (usize, Option<usize>) {
        (usize::max_value(), None)
    }
}

impl<D, R, T> iter::FusedIterator for DistIter<D, R, T>
where
    D: Distribution<T>,
    R: Rng,
{
}

#[cfg(feature = "nightly")]
unsafe impl<D, R, T> iter::TrustedLen for DistIter<D, R, T>
where
    D: Distribution<T>,
    R: Rng,
{
}

/// A distribution of values of type `S` derived from the distribution `D`
/// by mapping its output of type `T` through the closure `F`.
///
/// This `struct` is created by the [`Distribution::map`] method.
/// See its documentation for more.
#[derive(Debug)]
pub struct DistMap<D, F, T, S> {
    distr: D,
    func: F,
    phantom: ::core::marker::PhantomData<fn(T) -> S>,
}

impl<D, F, T, S> Distribution<S> for DistMap<D, F, T, S>
where
    D: Distribution<T>,
    F: Fn(T) -> S,
{
    fn sample<R: Rng + ?Sized>(&self, rng: &mut R) -> S {
        (self.func)(self.distr.sample(rng))
    }
}

/// `String` sampler
///
/// Sampling a `String` of random characters is not quite the same as collecting
/// a sequence of chars. This trait contains some helpers.
#[cfg(feature = "alloc")]
pub trait DistString {
    /// Append `len` random chars to `string`
    fn append_string<R: Rng + ?Sized>(&self, rng: &mut R, string: &mut String, len: usize);

    /// Generate a `String` of `len` random chars
    #[inline]
    fn sample_string<R: Rng + ?Sized>(&self, rng: &mut R, len: usize) -> String {
        let mut s = String::new();
        self.append_string(rng, &mut s, len);
        s
    }
}

#[cfg(test)]
mod tests {
    use crate::distributions::{Distribution, Uniform};
    use crate::Rng;

    #[test]
    fn test_distributions_iter() {
        use crate::distributions::Open01;
        let mut rng = crate::test::rng(210);
        let distr = Open01;
        let mut iter = Distribution::<f32>::sample_iter(distr, &mut rng);
        let mut sum: f32 = 0.;
        for _ in 0..100 {
            sum += iter.next().unwrap();
        }
        assert!(0. < sum && sum < 100.);
    }

    #[test]
    fn test_distributions_map() {
        let dist = Uniform::new_inclusive(0, 5).map(|val| val + 15);

        let mut rng = crate::test::rng(212);
        let val = dist.sample(&mut rng);
        assert!((15..=20).contains(&val));
    }

    #[test]
    fn test_make_an_iter() {
        fn ten_dice_rolls_other_than_five<R: Rng>(
            rng: &mut R,
        ) -> impl Iterator<Item = i32> + '_ {
            Uniform::new_inclusive(1, 6)
                .sample_iter(rng)
                .filter(|x| *x != 5)
                .take(10)
        }

        let mut rng = crate::test::rng(211);
        let mut count = 0;
        for val in ten_dice_rolls_other_than_five(&mut rng) {
            assert!((1..=6).contains(&val) && val != 5);
            count += 1;
        }
        assert_eq!(count, 10);
    }

    #[test]
    #[cfg(feature = "alloc")]
    fn test_dist_string() {
        use core::str;
        use crate::distributions::{Alphanumeric, DistString, Standard};
        let mut rng = crate::test::rng(213);

        let s1 = Alphanumeric.sample_string(&mut rng, 20);
        assert_eq!(s1.len(), 20);
        assert_eq!(str::from_utf8(s1.as_bytes()), Ok(s1.as_str()));

        let s2 = Standard.sample_string(&mut rng, 20);
        assert_eq!(s2.chars().count(), 20);
        assert_eq!(str::from_utf8(s2.as_bytes()), Ok(s2.as_str()));
    }
}
