// Copyright 2018-2020 Developers of the Rand project.
// Copyright 2017 The Rust Project Developers.
//
// Licensed under the Apache License, Version 2.0 <LICENSE-APACHE or
// https://www.apache.org/licenses/LICENSE-2.0> or the MIT license
// <LICENSE-MIT or https://opensource.org/licenses/MIT>, at your
// option. This file may not be copied, modified, or distributed
// except according to those terms.

//! A distribution uniformly sampling numbers within a given range.
//!
//! [`Uniform`] is the standard distribution to sample uniformly from a range;
//! e.g. `Uniform::new_inclusive(1, 6)` can sample integers from 1 to 6, like a
//! standard die. [`Rng::gen_range`] supports any type supported by
//! [`Uniform`].
//!
//! This distribution is provided with support for several primitive types
//! (all integer and floating-point types) as well as [`std::time::Duration`],
//! and supports extension to user-defined types via a type-specific *back-end*
//! implementation.
//!
//! The types [`UniformInt`], [`UniformFloat`] and [`UniformDuration`] are the
//! back-ends supporting sampling from primitive integer and floating-point
//! ranges as well as from [`std::time::Duration`]; these types do not normally
//! need to be used directly (unless implementing a derived back-end).
//!
//! # Example usage
//!
//! ```
//! use rand::{Rng, thread_rng};
//! use rand::distributions::Uniform;
//!
//! let mut rng = thread_rng();
//! let side = Uniform::new(-10.0, 10.0);
//!
//! // sample between 1 and 10 points
//! for _ in 0..rng.gen_range(1..=10) {
//!     // sample a point from the square with sides -10 - 10 in two dimensions
//!     let (x, y) = (rng.sample(side), rng.sample(side));
//!     println!("Point: {}, {}", x, y);
//! }
//! ```
//!
//! # Extending `Uniform` to support a custom type
//!
//! To extend [`Uniform`] to support your own types, write a back-end which
//! implements the [`UniformSampler`] trait, then implement the [`SampleUniform`]
//! helper trait to "register" your back-end. See the `MyF32` example below.
//!
//! At a minimum, the back-end needs to store any parameters needed for sampling
//! (e.g. the target range) and implement `new`, `new_inclusive` and `sample`.
//! Those methods should include an assert to check the range is valid (i.e.
//! `low < high`). The example below merely wraps another back-end.
//!
//! The `new`, `new_inclusive` and `sample_single` functions use arguments of
//! type `SampleBorrow<X>` in order to support passing in values by reference or
//! by value. In the implementation of these functions, you can choose to
//! simply use the reference returned by [`SampleBorrow::borrow`], or you can choose
//! to copy or clone the value, whatever is appropriate for your type.
//!
//! ```
//! use rand::prelude::*;
//! use rand::distributions::uniform::{Uniform, SampleUniform,
//!         UniformSampler, UniformFloat, SampleBorrow};
//!
//! struct MyF32(f32);
//!
//! #[derive(Clone, Copy, Debug)]
//! struct UniformMyF32(UniformFloat<f32>);
//!
//! impl UniformSampler for UniformMyF32 {
//!     type X = MyF32;
//!     fn new<B1, B2>(low: B1, high: B2) -> Self
//!         where B1: SampleBorrow<Self::X> + Sized,
//!               B2: SampleBorrow<Self::X> + Sized
//!     {
//!         UniformMyF32(UniformFloat::<f32>::new(low.borrow().0, high.borrow().0))
//!     }
//!     fn new_inclusive<B1, B2>(low: B1, high: B2) -> Self
//!         where B1: SampleBorrow<Self::X> + Sized,
//!               B2: SampleBorrow<Self::X> + Sized
//!     {
//!         UniformMyF32(UniformFloat::<f32>::new_inclusive(
//!             low.borrow().0,
//!             high.borrow().0,
//!         ))
//!     }
//!     fn sample<R: Rng + ?Sized>(&self, rng: &mut R) -> Self::X {
//!         MyF32(self.0.sample(rng))
//!     }
//! }
//!
//! impl SampleUniform for MyF32 {
//!     type Sampler = UniformMyF32;
//! }
//!
//! let (low, high) = (MyF32(17.0f32), MyF32(22.0f32));
//! let uniform = Uniform::new(low, high);
//! let x = uniform.sample(&mut thread_rng());
//! ```
//!
//! [`SampleUniform`]: crate::distributions::uniform::SampleUniform
//! [`UniformSampler`]: crate::distributions::uniform::UniformSampler
//! [`UniformInt`]: crate::distributions::uniform::UniformInt
//! [`UniformFloat`]: crate::distributions::uniform::UniformFloat
//! [`UniformDuration`]: crate::distributions::uniform::UniformDuration
//! [`SampleBorrow::borrow`]: crate::distributions::uniform::SampleBorrow::borrow

use core::time::Duration;
use core::ops::{Range, RangeInclusive};

use crate::distributions::float::IntoFloat;
use crate::distributions::utils::{BoolAsSIMD, FloatAsSIMD, FloatSIMDUtils, WideningMultiply};
use crate::distributions::Distribution;
use crate::{Rng, RngCore};

#[cfg(not(feature = "std"))]
#[allow(unused_imports)] // rustc doesn't detect that this is actually used
use crate::distributions::utils::Float;

#[cfg(feature = "serde1")]
use serde::{Serialize, Deserialize};

/// Sample values uniformly between two bounds.
///
/// [`Uniform::new`] and [`Uniform::new_inclusive`] construct a uniform
/// distribution sampling from the given range; these functions may do extra
/// work up front to make sampling of multiple values faster. If only one sample
/// from the range is required, [`Rng::gen_range`] can be more efficient.
///
/// When sampling from a constant range, many calculations can happen at
/// compile-time and all methods should be fast; for floating-point ranges and
/// the full range of integer types this should have comparable performance to
/// the `Standard` distribution.
///
/// Steps are taken to avoid bias which might be present in naive
/// implementations; for example `rng.gen::<u8>() % 170` samples from the range
/// `[0, 169]` but is twice as likely to select numbers less than 85 than other
/// values. Further, the implementations here give more weight to the high-bits
/// generated by the RNG than the low bits, since with some RNGs the low-bits
/// are of lower quality than the high bits.
///
/// Implementations must sample in `[low, high)` range for
/// `Uniform::new(low, high)`, i.e., excluding `high`. In particular, care must
/// be taken to ensure that rounding never results values `< low` or `>= high`.
///
/// # Example
///
/// ```
/// use rand::distributions::{Distribution, Uniform};
///
/// let between = Uniform::from(10..10000);
/// let mut rng = rand::thread_rng();
/// let mut sum = 0;
/// for _ in 0..1000 {
///     sum += between.sample(&mut rng);
/// }
/// println!("{}", sum);
/// ```
///
/// For a single sample, [`Rng::gen_range`] may be preferred:
///
/// ```
/// use rand::Rng;
///
/// let mut rng = rand::thread_rng();
/// println!("{}", rng.gen_range(0..10));
/// ```
///
/// [`new`]: Uniform::new
/// [`new_inclusive`]: Uniform::new_inclusive
/// [`Rng::gen_range`]: Rng::gen_range
#[derive(Clone, Copy, Debug, PartialEq)]
#[cfg_attr(feature = "serde1", derive(Serialize, Deserialize))]
#[cfg_attr(feature = "serde1", serde(bound(serialize = "X::Sampler: Serialize")))]
#[cfg_attr(feature = "serde1", serde(bound(deserialize = "X::Sampler: Deserialize<'de>")))]
pub struct Uniform<X: SampleUniform>(X::Sampler);

impl<X: SampleUniform> Uniform<X> {
    /// Create a new `Uniform` instance which samples uniformly from the half
    /// open range `[low, high)` (excluding `high`). Panics if `low >= high`.
    pub fn new<B1, B2>(low: B1, high: B2) -> Uniform<X>
    where
        B1: SampleBorrow<X> + Sized,
        B2: SampleBorrow<X> + Sized,
    {
        Uniform(X::Sampler::new(low, high))
    }

    /// Create a new `Uniform` instance which samples uniformly from the closed
    /// range `[low, high]` (inclusive). Panics if `low > high`.
    pub fn new_inclusive<B1, B2>(low: B1, high: B2) -> Uniform<X>
    where
        B1: SampleBorrow<X> + Sized,
        B2: SampleBorrow<X> + Sized,
    {
        Uniform(X::Sampler::new_inclusive(low, high))
    }
}

impl<X: SampleUniform> Distribution<X> for Uniform<X> {
    fn sample<R: Rng + ?Sized>(&self, rng: &mut R) -> X {
        self.0.sample(rng)
    }
}

/// Helper trait for creating objects using the correct implementation of
/// [`UniformSampler`] for the sampling type.
///
/// See the [module documentation] on how to implement [`Uniform`] range
/// sampling for a custom type.
///
/// [module documentation]: crate::distributions::uniform
pub trait SampleUniform: Sized {
    /// The `UniformSampler` implementation supporting type `X`.
    type Sampler: UniformSampler<X = Self>;
}

/// Helper trait handling actual uniform sampling.
///
/// See the [module documentation] on how to implement [`Uniform`] range
/// sampling for a custom type.
///
/// Implementation of [`sample_single`] is optional, and is only useful when
/// the implementation can be faster than `Self::new(low, high).sample(rng)`.
///
/// [module documentation]: crate::distributions::uniform
/// [`sample_single`]: UniformSampler::sample_single
pub trait UniformSampler: Sized {
    /// The type sampled by this implementation.
    type X;

    /// Construct self, with inclusive lower bound and exclusive upper bound
    /// `[low, high)`.
    ///
    /// Usually users should not call this directly but instead use
    /// `Uniform::new`, which asserts that `low < high` before calling this.
    fn new<B1, B2>(low: B1, high: B2) -> Self
    where
        B1: SampleBorrow<Self::X> + Sized,
        B2: SampleBorrow<Self::X> + Sized;

    /// Construct self, with inclusive bounds `[low, high]`.
    ///
    /// Usually users should not call this directly but instead use
    /// `Uniform::new_inclusive`, which asserts that `low <= high` before
    /// calling this.
    fn new_inclusive<B1, B2>(low: B1, high: B2) -> Self
    where
        B1: SampleBorrow<Self::X> + Sized,
        B2: SampleBorrow<Self::X> + Sized;

    /// Sample a value.
    fn sample<R: Rng + ?Sized>(&self, rng: &mut R) -> Self::X;

    /// Sample a single value uniformly from a range with inclusive lower bound
    /// and exclusive upper bound `[low, high)`.
    ///
    /// By default this is implemented using
    /// `UniformSampler::new(low, high).sample(rng)`. However, for some types
    /// more optimal implementations for single usage may be provided via this
    /// method (which is the case for integers and floats).
    /// Results may not be identical.
    ///
    /// Note that to use this method in a generic context, the type needs to be
    /// retrieved via `SampleUniform::Sampler` as follows:
    /// ```
    /// use rand::{thread_rng, distributions::uniform::{SampleUniform, UniformSampler}};
    /// # #[allow(unused)]
    /// fn sample_from_range<T: SampleUniform>(lb: T, ub: T) -> T {
    ///     let mut rng = thread_rng();
    ///     <T as SampleUniform>::Sampler::sample_single(lb, ub, &mut rng)
    /// }
    /// ```
    fn sample_single<R: Rng + ?Sized, B1, B2>(low: B1, high: B2, rng: &mut R) -> Self::X
    where
        B1: SampleBorrow<Self::X> + Sized,
        B2: SampleBorrow<Self::X> + Sized,
    {
        let uniform: Self = UniformSampler::new(low, high);
        uniform.sample(rng)
    }

    /// Sample a single value uniformly from a range with inclusive lower bound
    /// and inclusive upper bound `[low, high]`.
    ///
    /// By default this is implemented using
    /// `UniformSampler::new_inclusive(low, high).sample(rng)`. However, for
    /// some types more optimal implementations for single usage may be provided
    /// via this method.
    /// Results may not be identical.
    fn sample_single_inclusive<R: Rng + ?Sized, B1, B2>(low: B1, high: B2, rng: &mut R)
        -> Self::X
        where B1: SampleBorrow<Self::X> + Sized,
              B2: SampleBorrow<Self::X> + Sized
    {
        let uniform: Self = UniformSampler::new_inclusive(low, high);
        uniform.sample(rng)
    }
}

impl<X: SampleUniform> From<Range<X>> for Uniform<X> {
    fn from(r: ::core::ops::Range<X>) -> Uniform<X> {
        Uniform::new(r.start, r.end)
    }
}

impl<X: SampleUniform> From<RangeInclusive<X>> for Uniform<X> {
    fn from(r: ::core::ops::RangeInclusive<X>) -> Uniform<X> {
        Uniform::new_inclusive(r.start(), r.end())
    }
}


/// Helper trait similar to [`Borrow`] but implemented
/// only for SampleUniform and references to SampleUniform in
/// order to resolve ambiguity issues.
///
/// [`Borrow`]: std::borrow::Borrow
pub trait SampleBorrow<Borrowed> {
    /// Immutably borrows from an owned value. See [`Borrow::borrow`]
    ///
    /// [`Borrow::borrow`]: std::borrow::Borrow::borrow
    fn borrow(&self) -> &Borrowed;
}
impl<Borrowed> SampleBorrow<Borrowed> for Borrowed
where Borrowed: SampleUniform
{
    #[inline(always)]
    fn borrow(&self) -> &Borrowed {
        self
    }
}
impl<'a, Borrowed> SampleBorrow<Borrowed> for &'a Borrowed
where Borrowed: SampleUniform
{
    #[inline(always)]
    fn borrow(&self) -> &Borrowed {
        *self
    }
}

/// Range that supports generating a single sample efficiently.
///
/// Any type implementing this trait can be used to specify the sampled range
/// for `Rng::gen_range`.
pub trait SampleRange<T> {
    /// Generate a sample from the given range.
    fn sample_single<R: RngCore + ?Sized>(self, rng: &mut R) -> T;

    /// Check whether the range is empty.
    fn is_empty(&self) -> bool;
}

impl<T: SampleUniform + PartialOrd> SampleRange<T> for Range<T> {
    #[inline]
    fn sample_single<R: RngCore + ?Sized>(self, rng: &mut R) -> T {
        T::Sampler::sample_single(self.start, self.end, rng)
    }

    #[inline]
    fn is_empty(&self) -> bool {
        !(self.start < self.end)
    }
}

impl<T: SampleUniform + PartialOrd> SampleRange<T> for RangeInclusive<T> {
    #[inline]
    fn sample_single<R: RngCore + ?Sized>(self, rng: &mut R) -> T {
        T::Sampler::sample_single_inclusive(self.start(), self.end(), rng)
    }

    #[inline]
    fn is_empty(&self) -> bool {
        !(self.start() <= self.end())
    }
}


////////////////////////////////////////////////////////////////////////////////

// What follows are all back-ends.


/// The back-end implementing [`UniformSampler`] for integer types.
///
/// Unless you are implementing [`UniformSampler`] for your own type, this type
/// should not be used directly, use [`Uniform`] instead.
///
/// # Implementation notes
///
/// For simplicity, we use the same generic struct `UniformInt<X>` for all
/// integer types `X`. This gives us only one field type, `X`; to store unsigned
/// values of this size, we take use the fact that these conversions are no-ops.
///
/// For a closed range, the number of possible numbers we should generate is
/// `range = (high - low + 1)`. To avoid bias, we must ensure that the size of
/// our sample space, `zone`, is a multiple of `range`; other values must be
/// rejected (by replacing with a new random sample).
///
/// As a special case, we use `range = 0` to represent the full range of the
/// result type (i.e. for `new_inclusive($ty::MIN, $ty::MAX)`).
///
/// The optimum `zone` is the largest product of `range` which fits in our
/// (unsigned) target type. We calculate this by calculating how many numbers we
/// must reject: `reject = (MAX + 1) % range = (MAX - range + 1) % range`. Any (large)
/// product of `range` will suffice, thus in `sample_single` we multiply by a
/// power of 2 via bit-shifting (faster but may cause more rejections).
///
/// The smallest integer PRNGs generate is `u32`. For 8- and 16-bit outputs we
/// use `u32` for our `zone` and samples (because it's not slower and because
/// it reduces the chance of having to reject a sample). In this case we cannot
/// store `zone` in the target type since it is too large, however we know
/// `ints_to_reject < range <= $unsigned::MAX`.
///
/// An alternative to using a modulus is widening multiply: After a widening
/// multiply by `range`, the result is in the high word. Then comparing the low
/// word against `zone` makes sure our distribution is uniform.
#[derive(Clone, Copy, Debug, PartialEq)]
#[cfg_attr(feature = "serde1", derive(Serialize, Deserialize))]
pub struct UniformInt<X> {
    low: X,
    range: X,
    z: X, // either ints_to_reject or zone depending on implementation
}

macro_rules! uniform_int_impl {
    ($ty:ty, $unsigned:ident, $u_large:ident) => {
        impl UniformInt<$ty> {
            /// Get the maximum possible value
            #[allow(unused)]
            #[inline]
            pub(crate) fn max(&self) -> $ty {
                self.range.wrapping_sub(1).wrapping_add(self.low)
            }
        }

        impl SampleUniform for $ty {
            type Sampler = UniformInt<$ty>;
        }

        impl UniformSampler for UniformInt<$ty> {
            // We play free and fast with unsigned vs signed here
            // (when $ty is signed), but that's fine, since the
            // contract of this macro is for $ty and $unsigned to be
            // "bit-equal", so casting between them is a no-op.

            type X = $ty;

            #[inline] // if the range is constant, this helps LLVM to do the
                      // calculations at compile-time.
            fn new<B1, B2>(low_b: B1, high_b: B2) -> Self
            where
                B1: SampleBorrow<Self::X> + Sized,
                B2: SampleBorrow<Self::X> + Sized,
            {
                let low = *low_b.borrow();
                let high = *high_b.borrow();
                assert!(low < high, "Uniform::new called with `low >= high`");
                UniformSampler::new_inclusive(low, high - 1)
            }

            #[inline] // if the range is constant, this helps LLVM to do the
                      // calculations at compile-time.
            fn new_inclusive<B1, B2>(low_b: B1, high_b: B2) -> Self
            where
                B1: SampleBorrow<Self::X> + Sized,
                B2: SampleBorrow<Self::X> + Sized,
            {
                let low = *low_b.borrow();
                let high = *high_b.borrow();
                assert!(
                    low <= high,
                    "Uniform::new_inclusive called with `low > high`"
                );
                let unsigned_max = ::core::$u_large::MAX;

                let range = high.wrapping_sub(low).wrapping_add(1) as $unsigned;
                let ints_to_reject = if range > 0 {
                    let range = $u_large::from(range);
                    (unsigned_max - range + 1) % range
                } else {
                    0
                };

                UniformInt {
                    low,
                    // These are really $unsigned values, but store as $ty:
                    range: range as $ty,
                    z: ints_to_reject as $unsigned as $ty,
                }
            }

            #[inline]
            fn sample<R: Rng + ?Sized>(&self, rng: &mut R) -> Self::X {
                let range = self.range as $unsigned as $u_large;
                if range > 0 {
                    let unsigned_max = ::core::$u_large::MAX;
                    let zone = unsigned_max - (self.z as $unsigned as $u_large);
                    loop {
                        let v: $u_large = rng.gen();
                        let (hi, lo) = v.wmul(range);
                        if lo <= zone {
                            return self.low.wrapping_add(hi as $ty);
                        }
                    }
                } else {
                    // Sample from the entire integer range.
                    rng.gen()
                }
            }

            #[inline]
            fn sample_single<R: Rng + ?Sized, B1, B2>(low_b: B1, high_b: B2, rng: &mut R) -> Self::X
            where
                B1: SampleBorrow<Self::X> + Sized,
                B2: SampleBorrow<Self::X> + Sized,
            {
                let low = *low_b.borrow();
                let high = *high_b.borrow();
                assert!(low < high, "UniformSampler::sample_single: low >= high");
                Self::sample_single_inclusive(low, high - 1, rng)
            }

            #[inline]
            fn sample_single_inclusive<R: Rng + ?Sized, B1, B2>(low_b: B1, high_b: B2, rng: &mut R) -> Self::X
            where
                B1: SampleBorrow<Self::X> + Sized,
                B2: SampleBorrow<Self::X> + Sized,
            {
                let low = *low_b.borrow();
                let high = *high_b.borrow();
                assert!(low <= high, "UniformSampler::sample_single_inclusive: low > high");
                let range = high.wrapping_sub(low).wrapping_add(1) as $unsigned as $u_large;
                // If the above resulted in wrap-around to 0, the range is $ty::MIN..=$ty::MAX,
                // and any integer will do.
                if range == 0 {
                    return rng.gen();
                }

                let zone = if ::core::$unsigned::MAX <= ::core::u16::MAX as $unsigned {
                    // Using a modulus is faster than the approximation for
                    // i8 and i16. I suppose we trade the cost of one
                    // modulus for near-perfect branch prediction.
                    let unsigned_max: $u_large = ::core::$u_large::MAX;
                    let ints_to_reject = (unsigned_max - range + 1) % range;
                    unsigned_max - ints_to_reject
                } else {
                    // conservative but fast approximation. `- 1` is necessary to allow the
                    // same comparison without bias.
                    (range << range.leading_zeros()).wrapping_sub(1)
                };

                loop {
                    let v: $u_large = rng.gen();
                    let (hi, lo) = v.wmul(range);
                    if lo <= zone {
                        return low.wrapping_add(hi as $ty);
                    }
                }
            }
        }
    };
}

uniform_int_impl! { i8, u8, u32 }
uniform_int_impl! { i16, u16, u32 }
uniform_int_impl! { i32, u32, u32 }
uniform_int_impl! { i64, u64, u64 }
uniform_int_impl! { i128, u128, u128 }
uniform_int_impl! { isize, usize, usize }
uniform_int_impl! { u8, u8, u32 }
uniform_int_impl! { u16, u16, u32 }
uniform_int_impl! { u32, u32, u32 }
uniform_int_impl! { u64, u64, u64 }
uniform_int_impl! { usize, usize, usize }
uniform_int_impl! { u128, u128, u128 }

impl SampleUniform for char {
    type Sampler = UniformChar;
}

/// The back-end implementing [`UniformSampler`] for `char`.
///
/// Unless you are implementing [`UniformSampler`] for your own type, this type
/// should not be used directly, use [`Uniform`] instead.
///
/// This differs from integer range sampling since the range `0xD800..=0xDFFF`
/// are used for surrogate pairs in UCS and UTF-16, and consequently are not
/// valid Unicode code points. We must therefore avoid sampling values in this
/// range.
#[derive(Clone, Copy, Debug)]
#[cfg_attr(feature = "serde1", derive(Serialize, Deserialize))]
pub struct UniformChar {
    #[cfg_attr(feature = "serde1", serde(deserialize_with = "deser_sampler"))]
    sampler: UniformInt<u32>,
}

#[cfg(feature = "serde1")]
fn deser_sampler<'de, D>(d: D) -> Result<UniformInt<u32>, D::Error>
where
D: serde::Deserializer<'de>,
{
    let sampler = <UniformInt<u32> as serde::Deserialize>::deserialize(d)?;
    if sampler.max() > core::char::MAX as u32 - CHAR_SURROGATE_LEN {
        return Err(serde::de::Error::custom(
            "bad sampler range for UniformChar",
        ));
    }
    Ok(sampler)
}

/// UTF-16 surrogate range start
const CHAR_SURROGATE_START: u32 = 0xD800;
/// UTF-16 surrogate range size
const CHAR_SURROGATE_LEN: u32 = 0xE000 - CHAR_SURROGATE_START;

/// Convert `char` to compressed `u32`
fn char_to_comp_u32(c: char) -> u32 {
    match c as u32 {
        c if c >= CHAR_SURROGATE_START => c - CHAR_SURROGATE_LEN,
        c => c,
    }
}

impl UniformSampler for UniformChar {
    type X = char;

    #[inline] // if the range is constant, this helps LLVM to do the
              // calculations at compile-time.
    fn new<B1, B2>(low_b: B1, high_b: B2) -> Self
    where
        B1: SampleBorrow<Self::X> + Sized,
        B2: SampleBorrow<Self::X> + Sized,
    {
        let low = char_to_comp_u32(*low_b.borrow());
        let high = char_to_comp_u32(*high_b.borrow());
        let sampler = UniformInt::<u32>::new(low, high);
        UniformChar { sampler }
    }

    #[inline] // if the range is constant, this helps LLVM to do the
              // calculations at compile-time.
    fn new_inclusive<B1, B2>(low_b: B1, high_b: B2) -> Self
    where
        B1: SampleBorrow<Self::X> + Sized,
        B2: SampleBorrow<Self::X> + Sized,
    {
        let low = char_to_comp_u32(*low_b.borrow());
        let high = char_to_comp_u32(*high_b.borrow());
        let sampler = UniformInt::<u32>::new_inclusive(low, high);
        UniformChar { sampler }
    }

    fn sample<R: Rng + ?Sized>(&self, rng: &mut R) -> Self::X {
        let mut x = self.sampler.sample(rng);
        if x >= CHAR_SURROGATE_START {
            x += CHAR_SURROGATE_LEN;
        }
        // SAFETY: x must not be in surrogate range or greater than char::MAX.
        // This relies on range constructors which accept char arguments.
        // Validity of input char values is assumed.
        unsafe { core::char::from_u32_unchecked(x) }
    }
}

/// The back-end implementing [`UniformSampler`] for floating-point types.
///
/// Unless you are implementing [`UniformSampler`] for your own type, this type
/// should not be used directly, use [`Uniform`] instead.
///
/// # Implementation notes
///
/// Instead of generating a float in the `[0, 1)` range using [`Standard`], the
/// `UniformFloat` implementation converts the output of an PRNG itself. This
/// way one or two steps can be optimized out.
///
/// The floats are first converted to a value in the `[1, 2)` interval using a
/// transmute-based method, and then mapped to the expected range with a
/// multiply and addition. Values produced this way have what equals 23 bits of
/// random digits for an `f32`, and 52 for an `f64`.
///
/// [`new`]: UniformSampler::new
/// [`new_inclusive`]: UniformSampler::new_inclusive
/// [`Standard`]: crate::distributions::Standard
#[derive(Clone, Copy, Debug, PartialEq)]
#[cfg_attr(feature = "serde1", derive(Serialize, Deserialize))]
pub struct UniformFloat<X> {
    low: X,
    scale: X,
}

macro_rules! uniform_float_impl {
    ($ty:ty, $uty:ident, $f_scalar:ident, $u_scalar:ident, $bits_to_discard:expr) => {
        impl SampleUniform for $ty {
            type Sampler = UniformFloat<$ty>;
        }

        impl UniformSampler for UniformFloat<$ty> {
            type X = $ty;

            fn new<B1, B2>(low_b: B1, high_b: B2) -> Self
            where
                B1: SampleBorrow<Self::X> + Sized,
                B2: SampleBorrow<Self::X> + Sized,
            {
                let low = *low_b.borrow();
                let high = *high_b.borrow();
                debug_assert!(
                    low.all_finite(),
                    "Uniform::new called with `low` non-finite."
                );
                debug_assert!(
                    high.all_finite(),
                    "Uniform::new called with `high` non-finite."
                );
                assert!(low.all_lt(high), "Uniform::new called with `low >= high`");
                let max_rand = <$ty>::splat(
                    (::core::$u_scalar::MAX >> $bits_to_discard).into_float_with_exponent(0) - 1.0,
                );

                let mut scale = high - low;
                assert!(scale.all_finite(), "Uniform::new: range overflow");

                loop {
                    let mask = (scale * max_rand + low).ge_mask(high);
                    if mask.none() {
                        break;
                    }
                    scale = scale.decrease_masked(mask);
                }

                debug_assert!(<$ty>::splat(0.0).all_le(scale));

                UniformFloat { low, scale }
            }

            fn new_inclusive<B1, B2>(low_b: B1, high_b: B2) -> Self
            where
                B1: SampleBorrow<Self::X> + Sized,
                B2: SampleBorrow<Self::X> + Sized,
            {
                let low = *low_b.borrow();
                let high = *high_b.borrow();
                debug_assert!(
                    low.all_finite(),
                    "Uniform::new_inclusive called with `low` non-finite."
                );
                debug_assert!(
                    high.all_finite(),
                    "Uniform::new_inclusive called with `high` non-finite."
                );
                assert!(
                    low.all_le(high),
                    "Uniform::new_inclusive called with `low > high`"
                );
                let max_rand = <$ty>::splat(
                    (::core::$u_scalar::MAX >> $bits_to_discard).into_float_with_exponent(0) - 1.0,
                );

                let mut scale = (high - low) / max_rand;
                assert!(scale.all_finite(), "Uniform::new_inclusive: range overflow");

                loop {
                    let mask = (scale * max_rand + low).gt_mask(high);
                    if mask.none() {
                        break;
                    }
                    scale = scale.decrease_masked(mask);
                }

                debug_assert!(<$ty>::splat(0.0).all_le(scale));

                UniformFloat { low, scale }
            }

            fn sample<R: Rng + ?Sized>(&self, rng: &mut R) -> Self::X {
                // Generate a value in the range [1, 2)
                let value1_2 = (rng.gen::<$uty>() >> $bits_to_discard).into_float_with_exponent(0);

                // Get a value in the range [0, 1) in order to avoid
                // overflowing into infinity when multiplying with scale
                let value0_1 = value1_2 - 1.0;

                // We don't use `f64::mul_add`, because it is not available with
                // `no_std`. Furthermore, it is slower for some targets (but
                // faster for others). However, the order of multiplication and
                // addition is important, because on some platforms (e.g. ARM)
                // it will be optimized to a single (non-FMA) instruction.
                value0_1 * self.scale + self.low
            }

            #[inline]
            fn sample_single<R: Rng + ?Sized, B1, B2>(low_b: B1, high_b: B2, rng: &mut R) -> Self::X
            where
                B1: SampleBorrow<Self::X> + Sized,
                B2: SampleBorrow<Self::X> + Sized,
            {
                let low = *low_b.borrow();
                let high = *high_b.borrow();
                debug_assert!(
                    low.all_finite(),
                    "UniformSampler::sample_single called with `low` non-finite."
                );
                debug_assert!(
                    high.all_finite(),
                    "UniformSampler::sample_single called with `high` non-finite."
                );
                assert!(
                    low.all_lt(high),
                    "UniformSampler::sample_single: low >= high"
                );
                let mut scale = high - low;
                assert!(scale.all_finite(), "UniformSampler::sample_single: range overflow");

                loop {
                    // Generate a value in the range [1, 2)
                    let value1_2 =
                        (rng.gen::<$uty>() >> $bits_to_discard).into_float_with_exponent(0);

                    // Get a value in the range [0, 1) in order to avoid
                    // overflowing into infinity when multiplying with scale
                    let value0_1 = value1_2 - 1.0;

                    // Doing multiply before addition allows some architectures
                    // to use a single instruction.
                    let res = value0_1 * scale + low;

                    debug_assert!(low.all_le(res) || !scale.all_finite());
                    if res.all_lt(high) {
                        return res;
                    }

                    // This handles a number of edge cases.
                    // * `low` or `high` is NaN. In this case `scale` and
                    //   `res` are going to end up as NaN.
                    // * `low` is negative infinity and `high` is finite.
                    //   `scale` is going to be infinite and `res` will be
                    //   NaN.
                    // * `high` is positive infinity and `low` is finite.
                    //   `scale` is going to be infinite and `res` will
                    //   be infinite or NaN (if value0_1 is 0).
                    // * `low` is negative infinity and `high` is positive
                    //   infinity. `scale` will be infinite and `res` will
                    //   be NaN.
                    // * `low` and `high` are finite, but `high - low`
                    //   overflows to infinite. `scale` will be infinite
                    //   and `res` will be infinite or NaN (if value0_1 is 0).
                    // So if `high` or `low` are non-finite, we are guaranteed
                    // to fail the `res < high` check above and end up here.
                    //
                    // While we technically should check for non-finite `low`
                    // and `high` before entering the loop, by doing the checks
                    // here instead, we allow the common case to avoid these
                    // checks. But we are still guaranteed that if `low` or
                    // `high` are non-finite we'll end up here and can do the
                    // appropriate checks.
                    //
                    // Likewise `high - low` overflowing to infinity is also
                    // rare, so handle it here after the common case.
                    let mask = !scale.finite_mask();
                    if mask.any() {
                        assert!(
                            low.all_finite() && high.all_finite(),
                            "Uniform::sample_single: low and high must be finite"
                        );
                        scale = scale.decrease_masked(mask);
                    }
                }
            }
        }
    };
}

uniform_float_impl! { f32, u32, f32, u32, 32 - 23 }
uniform_float_impl! { f64, u64, f64, u64, 64 - 52 }

/// The back-end implementing [`UniformSampler`] for `Duration`.
///
/// Unless you are implementing [`UniformSampler`] for your own types, this type
/// should not be used directly, use [`Uniform`] instead.
#[derive(Clone, Copy, Debug)]
#[cfg_attr(feature = "serde1", derive(Serialize, Deserialize))]
pub struct UniformDuration {
    mode: UniformDurationMode,
    offset: u32,
}

#[derive(Debug, Copy, Clone)]
#[cfg_attr(feature = "serde1", derive(Serialize, Deserialize))]
enum UniformDurationMode {
    Small {
        secs: u64,
        nanos: Uniform<u32>,
    },
    Medium {
        nanos: Uniform<u64>,
    },
    Large {
        max_secs: u64,
        max_nanos: u32,
        secs: Uniform<u64>,
    },
}

impl SampleUniform for Duration {
    type Sampler = UniformDuration;
}

impl UniformSampler for UniformDuration {
    type X = Duration;

    #[inline]
    fn new<B1, B2>(low_b: B1, high_b: B2) -> Self
    where
        B1: SampleBorrow<Self::X> + Sized,
        B2: SampleBorrow<Self::X> + Sized,
    {
        let low = *low_b.borrow();
        let high = *high_b.borrow();
        assert!(low < high, "Uniform::new called with `low >= high`");
        UniformDuration::new_inclusive(low, high - Duration::new(0, 1))
    }

    #[inline]
    fn new_inclusive<B1, B2>(low_b: B1, high_b: B2) -> Self
    where
        B1: SampleBorrow<Self::X> + Sized,
        B2: SampleBorrow<Self::X> + Sized,
    {
        let low = *low_b.borrow();
        let high = *high_b.borrow();
        assert!(
            low <= high,
            "Uniform::new_inclusive called with `low > high`"
        );

        let low_s = low.as_secs();
        let low_n = low.subsec_nanos();
        let mut high_s = high.as_secs();
        let mut high_n = high.subsec_nanos();

        if high_n < low_n {
            high_s -= 1;
            high_n += 1_000_000_000;
        }

        let mode = if low_s == high_s {
            UniformDurationMode::Small {
                secs: low_s,
                nanos: Uniform::new_inclusive(low_n, high_n),
            }
        } else {
            let max = high_s
                .checked_mul(1_000_000_000)
                .and_then(|n| n.checked_add(u64::from(high_n)));

            if let Some(higher_bound) = max {
                let lower_bound = low_s * 1_000_000_000 + u64::from(low_n);
                UniformDurationMode::Medium {
                    nanos: Uniform::new_inclusive(lower_bound, higher_bound),
                }
            } else {
                // An offset is applied to simplify generation of nanoseconds
                let max_nanos = high_n - low_n;
                UniformDurationMode::Large {
                    max_secs: high_s,
                    max_nanos,
                    secs: Uniform::new_inclusive(low_s, high_s),
                }
            }
        };
        UniformDuration {
            mode,
            offset: low_n,
        }
    }

    #[inline]
    fn sample<R: Rng + ?Sized>(&self, rng: &mut R) -> Duration {
        match self.mode {
            UniformDurationMode::Small { secs, nanos } => {
                let n = nanos.sample(rng);
                Duration::new(secs, n)
            }
            UniformDurationMode::Medium { nanos } => {
                let nanos = nanos.sample(rng);
                Duration::new(nanos / 1_000_000_000, (nanos % 1_000_000_000) as u32)
            }
            UniformDurationMode::Large {
                max_secs,
                max_nanos,
                secs,
            } => {
                // constant folding means this is at least as fast as `Rng::sample(Range)`
                let nano_range = Uniform::new(0, 1_000_000_000);
                loop {
                    let s = secs.sample(rng);
                    let n = nano_range.sample(rng);
                    if !(s == max_secs && n > max_nanos) {
                        let sum = n + self.offset;
                        break Duration::new(s, sum);
                    }
                }
            }
        }
    }
}

#[cfg(test)]
mod tests {
    use super::*;
    use crate::rngs::mock::StepRng;

    #[test]
    #[cfg(feature = "serde1")]
    fn test_serialization_uniform_duration() {
        let distr = UniformDuration::new(Duration::from_secs(10), Duration::from_secs(60));
        let de_distr: UniformDuration = bincode::deserialize(&bincode::serialize(&distr).unwrap()).unwrap();
        assert_eq!(
            distr.offset, de_distr.offset
        );
        match (distr.mode, de_distr.mode) {
            (UniformDurationMode::Small {secs: a_secs, nanos: a_nanos}, UniformDurationMode::Small {secs, nanos}) => {
                assert_eq!(a_secs, secs);

                assert_eq!(a_nanos.0.low, nanos.0.low);
                assert_eq!(a_nanos.0.range, nanos.0.range);
                assert_eq!(a_nanos.0.z, nanos.0.z);
            }
            (UniformDurationMode::Medium {nanos: a_nanos} , UniformDurationMode::Medium {nanos}) => {
                assert_eq!(a_nanos.0.low, nanos.0.low);
                assert_eq!(a_nanos.0.range, nanos.0.range);
                assert_eq!(a_nanos.0.z, nanos.0.z);
            }
            (UniformDurationMode::Large {max_secs:a_max_secs, max_nanos:a_max_nanos, secs:a_secs}, UniformDurationMode::Large {max_secs, max_nanos, secs} ) => {
                assert_eq!(a_max_secs, max_secs);
                assert_eq!(a_max_nanos, max_nanos);

                assert_eq!(a_secs.0.low, secs.0.low);
                assert_eq!(a_secs.0.range, secs.0.range);
                assert_eq!(a_secs.0.z, secs.0.z);
            }
            _ => panic!("`UniformDurationMode` was not serialized/deserialized correctly")
        }
    }
    
    #[test]
    #[cfg(feature = "serde1")]
    fn test_uniform_serialization() {
        let unit_box: Uniform<i32>  = Uniform::new(-1, 1);
        let de_unit_box: Uniform<i32> = bincode::deserialize(&bincode::serialize(&unit_box).unwrap()).unwrap();

        assert_eq!(unit_box.0.low, de_unit_box.0.low);
        assert_eq!(unit_box.0.range, de_unit_box.0.range);
        assert_eq!(unit_box.0.z, de_unit_box.0.z);

        let unit_box: Uniform<f32> = Uniform::new(-1., 1.);
        let de_unit_box: Uniform<f32> = bincode::deserialize(&bincode::serialize(&unit_box).unwrap()).unwrap();

        assert_eq!(unit_box.0.low, de_unit_box.0.low);
        assert_eq!(unit_box.0.scale, de_unit_box.0.scale);
    }

    #[should_panic]
    #[test]
    fn test_uniform_bad_limits_equal_int() {
        Uniform::new(10, 10);
    }

    #[test]
    fn test_uniform_good_limits_equal_int() {
        let mut rng = crate::test::rng(804);
        let dist = Uniform::new_inclusive(10, 10);
        for _ in 0..20 {
            assert_eq!(rng.sample(dist), 10);
        }
    }

    #[should_panic]
    #[test]
    fn test_uniform_bad_limits_flipped_int() {
        Uniform::new(10, 5);
    }

    #[test]
    #[cfg_attr(miri, ignore)] // Miri is too slow
    fn test_integers() {
        use core::{i128, u128};
        use core::{i16, i32, i64, i8, isize};
        use core::{u16, u32, u64, u8, usize};

        let mut rng = crate::test::rng(251);
        macro_rules! t {
            ($ty:ident, $v:expr, $le:expr, $lt:expr) => {{
                for &(low, high) in $v.iter() {
                    let my_uniform = Uniform::new(low, high);
                    for _ in 0..1000 {
                        let v: $ty = rng.sample(my_uniform);
                        assert!($le(low, v) && $lt(v, high));
                    }

                    let my_uniform = Uniform::new_inclusive(low, high);
                    for _ in 0..1000 {
                        let v: $ty = rng.sample(my_uniform);
                        assert!($le(low, v) && $le(v, high));
                    }

                    let my_uniform = Uniform::new(&low, high);
                    for _ in 0..1000 {
                        let v: $ty = rng.sample(my_uniform);
                        assert!($le(low, v) && $lt(v, high));
                    }

                    let my_uniform = Uniform::new_inclusive(&low, &high);
                    for _ in 0..1000 {
                        let v: $ty = rng.sample(my_uniform);
                        assert!($le(low, v) && $le(v, high));
                    }

                    for _ in 0..1000 {
                        let v = <$ty as SampleUniform>::Sampler::sample_single(low, high, &mut rng);
                        assert!($le(low, v) && $lt(v, high));
                    }

                    for _ in 0..1000 {
                        let v = <$ty as SampleUniform>::Sampler::sample_single_inclusive(low, high, &mut rng);
                        assert!($le(low, v) && $le(v, high));
                    }
                }
            }};

            // scalar bulk
            ($($ty:ident),*) => {{
                $(t!(
                    $ty,
                    [(0, 10), (10, 127), ($ty::MIN, $ty::MAX)],
                    |x, y| x <= y,
                    |x, y| x < y
                );)*
            }};

            // simd bulk
            ($($ty:ident),* => $scalar:ident) => {{
                $(t!(
                    $ty,
                    [
                        ($ty::splat(0), $ty::splat(10)),
                        ($ty::splat(10), $ty::splat(127)),
                        ($ty::splat($scalar::MIN), $ty::splat($scalar::MAX)),
                    ],
                    |x: $ty, y| x.le(y).all(),
                    |x: $ty, y| x.lt(y).all()
                );)*
            }};
        }
        t!(i8, i16, i32, i64, isize, u8, u16, u32, u64, usize, i128, u128);
    }

    #[test]
    #[cfg_attr(miri, ignore)] // Miri is too slow
    fn test_char() {
        let mut rng = crate::test::rng(891);
        let mut max = core::char::from_u32(0).unwrap();
        for _ in 0..100 {
            let c = rng.gen_range('A'..='Z');
            assert!(('A'..='Z').contains(&c));
            max = max.max(c);
        }
        assert_eq!(max, 'Z');
        let d = Uniform::new(
            core::char::from_u32(0xD7F0).unwrap(),
            core::char::from_u32(0xE010).unwrap(),
        );
        for _ in 0..100 {
            let c = d.sample(&mut rng);
            assert!((c as u32) < 0xD800 || (c as u32) > 0xDFFF);
        }
    }

    #[test]
    #[cfg(feature = "serde1")]
    fn test_char_bad_deser() {
        let json = r#"{"sampler":{"low":4294967200,"range":0,"z":0}}"#;
        let result = serde_json::from_str::<Uniform<char>>(json);
        assert!(result.is_err());
        let err = result.unwrap_err();
        assert_eq!(err.classify(), serde_json::error::Category::Data);

        #[cfg(feature = "alloc")]
        {
            assert_eq!(
                alloc::string::ToString::to_string(&err),
                       "bad sampler range for UniformChar at line 1 column 46"
            );
        }
    }

    #[test]
    #[cfg_attr(miri, ignore)] // Miri is too slow
    fn test_floats() {
        let mut rng = crate::test::rng(252);
        let mut zero_rng = StepRng::new(0, 0);
        let mut max_rng = StepRng::new(0xffff_ffff_ffff_ffff, 0);
        macro_rules! t {
            ($ty:ty, $f_scalar:ident, $bits_shifted:expr) => {{
                let v: &[($f_scalar, $f_scalar)] = &[
                    (0.0, 100.0),
                    (-1e35, -1e25),
                    (1e-35, 1e-25),
                    (-1e35, 1e35),
                    (<$f_scalar>::from_bits(0), <$f_scalar>::from_bits(3)),
                    (-<$f_scalar>::from_bits(10), -<$f_scalar>::from_bits(1)),
                    (-<$f_scalar>::from_bits(5), 0.0),
                    (-<$f_scalar>::from_bits(7), -0.0),
                    (0.1 * ::core::$f_scalar::MAX, ::core::$f_scalar::MAX),
                    (-::core::$f_scalar::MAX * 0.2, ::core::$f_scalar::MAX * 0.7),
                ];
                for &(low_scalar, high_scalar) in v.iter() {
                    for lane in 0..<$ty>::lanes() {
                        let low = <$ty>::splat(0.0 as $f_scalar).replace(lane, low_scalar);
                        let high = <$ty>::splat(1.0 as $f_scalar).replace(lane, high_scalar);
                        let my_uniform = Uniform::new(low, high);
                        let my_incl_uniform = Uniform::new_inclusive(low, high);
                        for _ in 0..100 {
                            let v = rng.sample(my_uniform).extract(lane);
                            assert!(low_scalar <= v && v < high_scalar);
                            let v = rng.sample(my_incl_uniform).extract(lane);
                            assert!(low_scalar <= v && v <= high_scalar);
                            let v = <$ty as SampleUniform>::Sampler
                                ::sample_single(low, high, &mut rng).extract(lane);
                            assert!(low_scalar <= v && v < high_scalar);
                        }

                        assert_eq!(
                            rng.sample(Uniform::new_inclusive(low, low)).extract(lane),
                            low_scalar
                        );

                        assert_eq!(zero_rng.sample(my_uniform).extract(lane), low_scalar);
                        assert_eq!(zero_rng.sample(my_incl_uniform).extract(lane), low_scalar);
                        assert_eq!(<$ty as SampleUniform>::Sampler
                            ::sample_single(low, high, &mut zero_rng)
                            .extract(lane), low_scalar);
                        assert!(max_rng.sample(my_uniform).extract(lane) < high_scalar);
                        assert!(max_rng.sample(my_incl_uniform).extract(lane) <= high_scalar);

                        // Don't run this test for really tiny differences between high and low
                        // since for those rounding might result in selecting high for a very
                        // long time.
                        if (high_scalar - low_scalar) > 0.0001 {
                            let mut lowering_max_rng = StepRng::new(
                                0xffff_ffff_ffff_ffff,
                                (-1i64 << $bits_shifted) as u64,
                            );
                            assert!(
                                <$ty as SampleUniform>::Sampler
                                    ::sample_single(low, high, &mut lowering_max_rng)
                                    .extract(lane) < high_scalar
                            );
                        }
                    }
                }

                assert_eq!(
                    rng.sample(Uniform::new_inclusive(
                        ::core::$f_scalar::MAX,
                        ::core::$f_scalar::MAX
                    )),
                    ::core::$f_scalar::MAX
                );
                assert_eq!(
                    rng.sample(Uniform::new_inclusive(
                        -::core::$f_scalar::MAX,
                        -::core::$f_scalar::MAX
                    )),
                    -::core::$f_scalar::MAX
                );
            }};
        }

        t!(f32, f32, 32 - 23);
        t!(f64, f64, 64 - 52);
    }

    #[test]
    #[should_panic]
    fn test_float_overflow() {
        let _ = Uniform::from(::core::f64::MIN..::core::f64::MAX);
    }

    #[test]
    #[should_panic]
    fn test_float_overflow_single() {
        let mut rng = crate::test::rng(252);
        rng.gen_range(::core::f64::MIN..::core::f64::MAX);
    }

    #[test]
    #[cfg(all(
        feature = "std",
        not(target_arch = "wasm32"),
    ))]
    fn test_float_assertions() {
        use super::SampleUniform;
        use std::panic::catch_unwind;
        fn range<T: SampleUniform>(low: T, high: T) {
            let mut rng = crate::test::rng(253);
            T::Sampler::sample_single(low, high, &mut rng);
        }

        macro_rules! t {
            ($ty:ident, $f_scalar:ident) => {{
                let v: &[($f_scalar, $f_scalar)] = &[
                    (::std::$f_scalar::NAN, 0.0),
                    (1.0, ::std::$f_scalar::NAN),
                    (::std::$f_scalar::NAN, ::std::$f_scalar::NAN),
                    (1.0, 0.5),
                    (::std::$f_scalar::MAX, -::std::$f_scalar::MAX),
                    (::std::$f_scalar::INFINITY, ::std::$f_scalar::INFINITY),
                    (
                        ::std::$f_scalar::NEG_INFINITY,
                        ::std::$f_scalar::NEG_INFINITY,
                    ),
                    (::std::$f_scalar::NEG_INFINITY, 5.0),
                    (5.0, ::std::$f_scalar::INFINITY),
                    (::std::$f_scalar::NAN, ::std::$f_scalar::INFINITY),
                    (::std::$f_scalar::NEG_INFINITY, ::std::$f_scalar::NAN),
                    (::std::$f_scalar::NEG_INFINITY, ::std::$f_scalar::INFINITY),
                ];
                for &(low_scalar, high_scalar) in v.iter() {
                    for lane in 0..<$ty>::lanes() {
                        let low = <$ty>::splat(0.0 as $f_scalar).replace(lane, low_scalar);
                        let high = <$ty>::splat(1.0 as $f_scalar).replace(lane, high_scalar);
                        assert!(catch_unwind(|| range(low, high)).is_err());
                        assert!(catch_unwind(|| Uniform::new(low, high)).is_err());
                        assert!(catch_unwind(|| Uniform::new_inclusive(low, high)).is_err());
                        assert!(catch_unwind(|| range(low, low)).is_err());
                        assert!(catch_unwind(|| Uniform::new(low, low)).is_err());
                    }
                }
            }};
        }

        t!(f32, f32);
        t!(f64, f64);
    }


    #[test]
    #[cfg_attr(miri, ignore)] // Miri is too slow
    fn test_durations() {
        let mut rng = crate::test::rng(253);

        let v = &[
            (Duration::new(10, 50000), Duration::new(100, 1234)),
            (Duration::new(0, 100), Duration::new(1, 50)),
            (
                Duration::new(0, 0),
                Duration::new(u64::max_value(), 999_999_999),
            ),
        ];
        for &(low, high) in v.iter() {
            let my_uniform = Uniform::new(low, high);
            for _ in 0..1000 {
                let v = rng.sample(my_uniform);
                assert!(low <= v && v < high);
            }
        }
    }

    #[test]
    fn test_custom_uniform() {
        use crate::distributions::uniform::{
            SampleBorrow, SampleUniform, UniformFloat, UniformSampler,
        };
        #[derive(Clone, Copy, PartialEq, PartialOrd)]
        struct MyF32 {
            x: f32,
        }
        #[derive(Clone, Copy, Debug)]
        struct UniformMyF32(UniformFloat<f32>);
        impl UniformSampler for UniformMyF32 {
            type X = MyF32;

            fn new<B1, B2>(low: B1, high: B2) -> Self
            where
                B1: SampleBorrow<Self::X> + Sized,
                B2: SampleBorrow<Self::X> + Sized,
            {
                UniformMyF32(UniformFloat::<f32>::new(low.borrow().x, high.borrow().x))
            }

            fn new_inclusive<B1, B2>(low: B1, high: B2) -> Self
            where
                B1: SampleBorrow<Self::X> + Sized,
                B2: SampleBorrow<Self::X> + Sized,
            {
                UniformSampler::new(low, high)
            }

            fn sample<R: Rng + ?Sized>(&self, rng: &mut R) -> Self::X {
                MyF32 {
                    x: self.0.sample(rng),
                }
            }
        }
        impl SampleUniform for MyF32 {
            type Sampler = UniformMyF32;
        }

        let (low, high) = (MyF32 { x: 17.0f32 }, MyF32 { x: 22.0f32 });
        let uniform = Uniform::new(low, high);
        let mut rng = crate::test::rng(804);
        for _ in 0..100 {
            let x: MyF32 = rng.sample(uniform);
            assert!(low <= x && x < high);
        }
    }

    #[test]
    fn test_uniform_from_std_range() {
        let r = Uniform::from(2u32..7);
        assert_eq!(r.0.low, 2);
        assert_eq!(r.0.range, 5);
        assert_eq!(r.0.max(), 6);
        let r = Uniform::from(2.0f64..7.0);
        assert_eq!(r.0.low, 2.0);
        assert_eq!(r.0.scale, 5.0);
    }

    #[test]
    fn test_uniform_from_std_range_inclusive() {
        let r = Uniform::from(2u32..=6);
        assert_eq!(r.0.low, 2);
        assert_eq!(r.0.range, 5);
        assert_eq!(r.0.max(), 6);
        let r = Uniform::from(2.0f64..=7.0);
        assert_eq!(r.0.low, 2.0);
        assert!(r.0.scale > 5.0);
        assert!(r.0.scale < 5.0 + 1e-14);
    }

    #[test]
    fn value_stability() {
        fn test_samples<T: SampleUniform + Copy + core::fmt::Debug + PartialEq>(
            lb: T, ub: T, expected_single: &[T], expected_multiple: &[T],
        ) where Uniform<T>: Distribution<T> {
            let mut rng = crate::test::rng(897);
            let mut buf = [lb; 3];

            for x in &mut buf {
                *x = T::Sampler::sample_single(lb, ub, &mut rng);
            }
            assert_eq!(&buf, expected_single);

            let distr = Uniform::new(lb, ub);
            for x in &mut buf {
                *x = rng.sample(&distr);
            }
            assert_eq!(&buf, expected_multiple);
        }

        // We test on a sub-set of types; possibly we should do more.
        // TODO: SIMD types

        test_samples(11u8, 219, &[17, 66, 214], &[181, 93, 165]);
        test_samples(11u32, 219, &[17, 66, 214], &[181, 93, 165]);

        test_samples(0f32, 1e-2f32, &[0.0003070104, 0.0026630748, 0.00979833], &[
            0.008194133,
            0.00398172,
            0.007428536,
        ]);
        test_samples(
            -1e10f64,
            1e10f64,
            &[-4673848682.871551, 6388267422.932352, 4857075081.198343],
            &[1173375212.1808167, 1917642852.109581, 2365076174.3153973],
        );

        test_samples(
            Duration::new(2, 0),
            Duration::new(4, 0),
            &[
                Duration::new(2, 532615131),
                Duration::new(3, 638826742),
                Duration::new(3, 485707508),
            ],
            &[
                Duration::new(3, 117337521),
                Duration::new(3, 191764285),
                Duration::new(3, 236507617),
            ],
        );
    }

    #[test]
    fn uniform_distributions_can_be_compared() {
        assert_eq!(Uniform::new(1.0, 2.0), Uniform::new(1.0, 2.0));

        // To cover UniformInt
        assert_eq!(Uniform::new(1 as u32, 2 as u32), Uniform::new(1 as u32, 2 as u32));
    }
}
