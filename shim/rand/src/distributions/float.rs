// Copyright 2018 Developers of the Rand project.
//
// Licensed under the Apache License, Version 2.0 <LICENSE-APACHE or
// https://www.apache.org/licenses/LICENSE-2.0> or the MIT license
// <LICENSE-MIT or https://opensource.org/licenses/MIT>, at your
// option. This file may not be copied, modified, or distributed
// except according to those terms.

//! Basic floating-point number distributions

use crate::distributions::utils::FloatSIMDUtils;
use crate::distributions::{Distribution, Standard};
use crate::Rng;
use core::mem;

#[cfg(feature = "serde1")]
use serde::{Serialize, Deserialize};

/// A distribution to sample floating point numbers uniformly in the half-open
/// interval `(0, 1]`, i.e. including 1 but not 0.
///
/// All values that can be generated are of the form `n * ε/2`. For `f32`
/// the 24 most significant random bits of a `u32` are used and for `f64` the
/// 53 most significant bits of a `u64` are used. The conversion uses the
/// multiplicative method.
///
/// See also: [`Standard`] which samples from `[0, 1)`, [`Open01`]
/// which samples from `(0, 1)` and [`Uniform`] which samples from arbitrary
/// ranges.
///
/// # Example
/// ```
/// use rand::{thread_rng, Rng};
/// use rand::distributions::OpenClosed01;
///
/// let val: f32 = thread_rng().sample(OpenClosed01);
/// println!("f32 from (0, 1): {}", val);
/// ```
///
/// [`Standard`]: crate::distributions::Standard
/// [`Open01`]: crate::distributions::Open01
/// [`Uniform`]: crate::distributions::uniform::Uniform
#[derive(Clone, Copy, Debug)]
#[cfg_attr(feature = "serde1", derive(Serialize, Deserialize))]
pub struct OpenClosed01;

/// A distribution to sample floating point numbers uniformly in the open
/// interval `(0, 1)`, i.e. not including either endpoint.
///
/// All values that can be generated are of the form `n * ε + ε/2`. For `f32`
/// the 23 most significant random bits of an `u32` are used, for `f64` 52 from
/// an `u64`. The conversion uses a transmute-based method.
///
/// See also: [`Standard`] which samples from `[0, 1)`, [`OpenClosed01`]
/// which samples from `(0, 1]` and [`Uniform`] which samples from arbitrary
/// ranges.
///
/// # Example
/// ```
/// use rand::{thread_rng, Rng};
/// use rand::distributions::Open01;
///
/// let val: f32 = thread_rng().sample(Open01);
/// println!("f32 from (0, 1): {}", val);
/// ```
///
/// [`Standard`]: crate::distributions::Standard
/// [`OpenClosed01`]: crate::distributions::OpenClosed01
/// [`Uniform`]: crate::distributions::uniform::Uniform
#[derive(Clone, Copy, Debug)]
#[cfg_attr(feature = "serde1", derive(Serialize, Deserialize))]
pub struct Open01;


// This trait is needed by both this lib and rand_distr hence is a hidden export
#[doc(hidden)]
pub trait IntoFloat {
    type F;

    /// Helper method to combine the fraction and a constant exponent into a
    /// float.
    ///
    /// Only the least significant bits of `self` may be set, 23 for `f32` and
    /// 52 for `f64`.
    /// The resulting value will fall in a range that depends on the exponent.
    /// As an example the range with exponent 0 will be
    /// [2<sup>0</sup>..2<sup>1</sup>), which is [1..2).
    fn into_float_with_exponent(self, exponent: i32) -> Self::F;
}

macro_rules! float_impls {
    ($ty:ident, $uty:ident, $f_scalar:ident, $u_scalar:ty,
     $fraction_bits:expr, $exponent_bias:expr) => {
        impl IntoFloat for $uty {
            type F = $ty;
            #[inline(always)]
            fn into_float_with_exponent(self, exponent: i32) -> $ty {
                // The exponent is encoded using an offset-binary representation
                let exponent_bits: $u_scalar =
                    (($exponent_bias + exponent) as $u_scalar) << $fraction_bits;
                $ty::from_bits(self | exponent_bits)
            }
        }

        impl Distribution<$ty> for Standard {
            fn sample<R: Rng + ?Sized>(&self, rng: &mut R) -> $ty {
                // Multiply-based method; 24/53 random bits; [0, 1) interval.
                // We use the most significant bits because for simple RNGs
                // those are usually more random.
                let float_size = mem::size_of::<$f_scalar>() as u32 * 8;
                let precision = $fraction_bits + 1;
                let scale = 1.0 / ((1 as $u_scalar << precision) as $f_scalar);

                let value: $uty = rng.gen();
                let value = value >> (float_size - precision);
                scale * $ty::cast_from_int(value)
            }
        }

        impl Distribution<$ty> for OpenClosed01 {
            fn sample<R: Rng + ?Sized>(&self, rng: &mut R) -> $ty {
                // Multiply-based method; 24/53 random bits; (0, 1] interval.
                // We use the most significant bits because for simple RNGs
                // those are usually more random.
                let float_size = mem::size_of::<$f_scalar>() as u32 * 8;
                let precision = $fraction_bits + 1;
                let scale = 1.0 / ((1 as $u_scalar << precision) as $f_scalar);

                let value: $uty = rng.gen();
                let value = value >> (float_size - precision);
                // Add 1 to shift up; will not overflow because of right-shift:
                scale * $ty::cast_from_int(value + 1)
            }
        }

        impl Distribution<$ty> for Open01 {
            fn sample<R: Rng + ?Sized>(&self, rng: &mut R) -> $ty {
                // Transmute-based method; 23/52 random bits; (0, 1) interval.
                // We use the most significant bits because for simple RNGs
                // those are usually more random.
                use core::$f_scalar::EPSILON;
                let float_size = mem::size_of::<$f_scalar>() as u32 * 8;

                let value: $uty = rng.gen();
                let fraction = value >> (float_size - $fraction_bits);
                fraction.into_float_with_exponent(0) - (1.0 - EPSILON / 2.0)
            }
        }
    }
}

float_impls! { f32, u32, f32, u32, 23, 127 }
float_impls! { f64, u64, f64, u64, 52, 1023 }


#[cfg(test)]
mod tests {
    use super::*;
    use crate::rngs::mock::StepRng;

    const EPSILON32: f32 = ::core::f32::EPSILON;
    const EPSILON64: f64 = ::core::f64::EPSILON;

    macro_rules! test_f32 {
        ($fnn:ident, $ty:ident, $ZERO:expr, $EPSILON:expr) => {
            #[test]
            fn $fnn() {
                // Standard
                let mut zeros = StepRng::new(0, 0);
                assert_eq!(zeros.gen::<$ty>(), $ZERO);
                let mut one = StepRng::new(1 << 8 | 1 << (8 + 32), 0);
                assert_eq!(one.gen::<$ty>(), $EPSILON / 2.0);
                let mut max = StepRng::new(!0, 0);
                assert_eq!(max.gen::<$ty>(), 1.0 - $EPSILON / 2.0);

                // OpenClosed01
                let mut zeros = StepRng::new(0, 0);
                assert_eq!(zeros.sample::<$ty, _>(OpenClosed01), 0.0 + $EPSILON / 2.0);
                let mut one = StepRng::new(1 << 8 | 1 << (8 + 32), 0);
                assert_eq!(one.sample::<$ty, _>(OpenClosed01), $EPSILON);
                let mut max = StepRng::new(!0, 0);
                assert_eq!(max.sample::<$ty, _>(OpenClosed01), $ZERO + 1.0);

                // Open01
                let mut zeros = StepRng::new(0, 0);
                assert_eq!(zeros.sample::<$ty, _>(Open01), 0.0 + $EPSILON / 2.0);
                let mut one = StepRng::new(1 << 9 | 1 << (9 + 32), 0);
                assert_eq!(one.sample::<$ty, _>(Open01), $EPSILON / 2.0 * 3.0);
                let mut max = StepRng::new(!0, 0);
                assert_eq!(max.sample::<$ty, _>(Open01), 1.0 - $EPSILON / 2.0);
            }
        };
    }
    test_f32! { f32_edge_cases, f32, 0.0, EPSILON32 }

    macro_rules! test_f64 {
        ($fnn:ident, $ty:ident, $ZERO:expr, $EPSILON:expr) => {
            #[test]
            fn $fnn() {
                // Standard
                let mut zeros = StepRng::new(0, 0);
                assert_eq!(zeros.gen::<$ty>(), $ZERO);
                let mut one = StepRng::new(1 << 11, 0);
                assert_eq!(one.gen::<$ty>(), $EPSILON / 2.0);
                let mut max = StepRng::new(!0, 0);
                assert_eq!(max.gen::<$ty>(), 1.0 - $EPSILON / 2.0);

                // OpenClosed01
                let mut zeros = StepRng::new(0, 0);
                assert_eq!(zeros.sample::<$ty, _>(OpenClosed01), 0.0 + $EPSILON / 2.0);
                let mut one = StepRng::new(1 << 11, 0);
                assert_eq!(one.sample::<$ty, _>(OpenClosed01), $EPSILON);
                let mut max = StepRng::new(!0, 0);
                assert_eq!(max.sample::<$ty, _>(OpenClosed01), $ZERO + 1.0);

                // Open01
                let mut zeros = StepRng::new(0, 0);
                assert_eq!(zeros.sample::<$ty, _>(Open01), 0.0 + $EPSILON / 2.0);
                let mut one = StepRng::new(1 << 12, 0);
                assert_eq!(one.sample::<$ty, _>(Open01), $EPSILON / 2.0 * 3.0);
                let mut max = StepRng::new(!0, 0);
                assert_eq!(max.sample::<$ty, _>(Open01), 1.0 - $EPSILON / 2.0);
            }
        };
    }
    test_f64! { f64_edge_cases, f64, 0.0, EPSILON64 }

    #[test]
    fn value_stability() {
        fn test_samples<T: Copy + core::fmt::Debug + PartialEq, D: Distribution<T>>(
            distr: &D, zero: T, expected: &[T],
        ) {
            let mut rng = crate::test::rng(0x6f44f5646c2a7334);
            let mut buf = [zero; 3];
            for x in &mut buf {
                *x = rng.sample(&distr);
            }
            assert_eq!(&buf, expected);
        }

        test_samples(&Standard, 0f32, &[0.0035963655, 0.7346052, 0.09778172]);
        test_samples(&Standard, 0f64, &[
            0.7346051961657583,
            0.20298547462974248,
            0.8166436635290655,
        ]);

        test_samples(&OpenClosed01, 0f32, &[0.003596425, 0.73460525, 0.09778178]);
        test_samples(&OpenClosed01, 0f64, &[
            0.7346051961657584,
            0.2029854746297426,
            0.8166436635290656,
        ]);

        test_samples(&Open01, 0f32, &[0.0035963655, 0.73460525, 0.09778172]);
        test_samples(&Open01, 0f64, &[
            0.7346051961657584,
            0.20298547462974248,
            0.8166436635290656,
        ]);
    }
}
