// Copyright 2018 Developers of the Rand project.
//
// Licensed under the Apache License, Version 2.0 <LICENSE-APACHE or
// https://www.apache.org/licenses/LICENSE-2.0> or the MIT license
// <LICENSE-MIT or https://opensource.org/licenses/MIT>, at your
// option. This file may not be copied, modified, or distributed
// except according to those terms.

//! Weighted index sampling

use crate::distributions::uniform::{SampleBorrow, SampleUniform, UniformSampler};
use crate::distributions::Distribution;
use crate::Rng;
use core::cmp::PartialOrd;
use core::fmt;

// Note that this whole module is only imported if feature="alloc" is enabled.
use alloc::vec::Vec;

#[cfg(feature = "serde1")]
use serde::{Serialize, Deserialize};

/// A distribution using weighted sampling of discrete items
///
/// Sampling a `WeightedIndex` distribution returns the index of a randomly
/// selected element from the iterator used when the `WeightedIndex` was
/// created. The chance of a given element being picked is proportional to the
/// value of the element. The weights can use any type `X` for which an
/// implementation of [`Uniform<X>`] exists.
///
/// # Performance
///
/// Time complexity of sampling from `WeightedIndex` is `O(log N)` where
/// `N` is the number of weights. As an alternative,
/// [`rand_distr::weighted_alias`](https://docs.rs/rand_distr/*/rand_distr/weighted_alias/index.html)
/// supports `O(1)` sampling, but with much higher initialisation cost.
///
/// A `WeightedIndex<X>` contains a `Vec<X>` and a [`Uniform<X>`] and so its
/// size is the sum of the size of those objects, possibly plus some alignment.
///
/// Creating a `WeightedIndex<X>` will allocate enough space to hold `N - 1`
/// weights of type `X`, where `N` is the number of weights. However, since
/// `Vec` doesn't guarantee a particular growth strategy, additional memory
/// might be allocated but not used. Since the `WeightedIndex` object also
/// contains, this might cause additional allocations, though for primitive
/// types, [`Uniform<X>`] doesn't allocate any memory.
///
/// Sampling from `WeightedIndex` will result in a single call to
/// `Uniform<X>::sample` (method of the [`Distribution`] trait), which typically
/// will request a single value from the underlying [`RngCore`], though the
/// exact number depends on the implementation of `Uniform<X>::sample`.
///
/// # Example
///
/// ```
/// use rand::prelude::*;
/// use rand::distributions::WeightedIndex;
///
/// let choices = ['a', 'b', 'c'];
/// let weights = [2,   1,   1];
/// let dist = WeightedIndex::new(&weights).unwrap();
/// let mut rng = thread_rng();
/// for _ in 0..100 {
///     // 50% chance to print 'a', 25% chance to print 'b', 25% chance to print 'c'
///     println!("{}", choices[dist.sample(&mut rng)]);
/// }
///
/// let items = [('a', 0), ('b', 3), ('c', 7)];
/// let dist2 = WeightedIndex::new(items.iter().map(|item| item.1)).unwrap();
/// for _ in 0..100 {
///     // 0% chance to print 'a', 30% chance to print 'b', 70% chance to print 'c'
///     println!("{}", items[dist2.sample(&mut rng)].0);
/// }
/// ```
///
/// [`Uniform<X>`]: crate::distributions::Uniform
/// [`RngCore`]: crate::RngCore
#[derive(Debug, Clone, PartialEq)]
#[cfg_attr(feature = "serde1", derive(Serialize, Deserialize))]
#[cfg_attr(docsrs, doc(cfg(feature = "alloc")))]
pub struct WeightedIndex<X: SampleUniform + PartialOrd> {
    cumulative_weights: Vec<X>,
    total_weight: X,
    weight_distribution: X::Sampler,
}

impl<X: SampleUniform + PartialOrd> WeightedIndex<X> {
    /// Creates a new a `WeightedIndex` [`Distribution`] using the values
    /// in `weights`. The weights can use any type `X` for which an
    /// implementation of [`Uniform<X>`] exists.
    ///
    /// Returns an error if the iterator is empty, if any weight is `< 0`, or
    /// if its total value is 0.
    ///
    /// [`Uniform<X>`]: crate::distributions::uniform::Uniform
    pub fn new<I>(weights: I) -> Result<WeightedIndex<X>, WeightedError>
    where
        I: IntoIterator,
        I::Item: SampleBorrow<X>,
        X: for<'a> ::core::ops::AddAssign<&'a X> + Clone + Default,
    {
        let mut iter = weights.into_iter();
        let mut total_weight: X = iter.next().ok_or(WeightedError::NoItem)?.borrow().clone();

        let zero = <X as Default>::default();
        if !(total_weight >= zero) {
            return Err(WeightedError::InvalidWeight);
        }

        let mut weights = Vec::<X>::with_capacity(iter.size_hint().0);
        for w in iter {
            // Note that `!(w >= x)` is not equivalent to `w < x` for partially
            // ordered types due to NaNs which are equal to nothing.
            if !(w.borrow() >= &zero) {
                return Err(WeightedError::InvalidWeight);
            }
            weights.push(total_weight.clone());
            total_weight += w.borrow();
        }

        if total_weight == zero {
            return Err(WeightedError::AllWeightsZero);
        }
        let distr = X::Sampler::new(zero, total_weight.clone());

        Ok(WeightedIndex {
            cumulative_weights: weights,
            total_weight,
            weight_distribution: distr,
        })
    }

    /// Update a subset of weights, without changing the number of weights.
    ///
    /// `new_weights` must be sorted by the index.
    ///
    /// Using this method instead of `new` might be more efficient if only a small number of
    /// weights is modified. No allocations are performed, unless the weight type `X` uses
    /// allocation internally.
    ///
    /// In case of error, `self` is not modified.
    pub fn update_weights(&mut self, new_weights: &[(usize, &X)]) -> Result<(), WeightedError>
    where X: for<'a> ::core::ops::AddAssign<&'a X>
            + for<'a> ::core::ops::SubAssign<&'a X>
            + Clone
            + Default {
        if new_weights.is_empty() {
            return Ok(());
        }

        let zero = <X as Default>::default();

        let mut total_weight = self.total_weight.clone();

        // Check for errors first, so we don't modify `self` in case something
        // goes wrong.
        let mut prev_i = None;
        for &(i, w) in new_weights {
            if let Some(old_i) = prev_i {
                if old_i >= i {
                    return Err(WeightedError::InvalidWeight);
                }
            }
            if !(*w >= zero) {
                return Err(WeightedError::InvalidWeight);
            }
            if i > self.cumulative_weights.len() {
                return Err(WeightedError::TooMany);
            }

            let mut old_w = if i < self.cumulative_weights.len() {
                self.cumulative_weights[i].clone()
            } else {
                self.total_weight.clone()
            };
            if i > 0 {
                old_w -= &self.cumulative_weights[i - 1];
            }

            total_weight -= &old_w;
            total_weight += w;
            prev_i = Some(i);
        }
        if total_weight <= zero {
            return Err(WeightedError::AllWeightsZero);
        }

        // Update the weights. Because we checked all the preconditions in the
        // previous loop, this should never panic.
        let mut iter = new_weights.iter();

        let mut prev_weight = zero.clone();
        let mut next_new_weight = iter.next();
        let &(first_new_index, _) = next_new_weight.unwrap();
        let mut cumulative_weight = if first_new_index > 0 {
            self.cumulative_weights[first_new_index - 1].clone()
        } else {
            zero.clone()
        };
        for i in first_new_index..self.cumulative_weights.len() {
            match next_new_weight {
                Some(&(j, w)) if i == j => {
                    cumulative_weight += w;
                    next_new_weight = iter.next();
                }
                _ => {
                    let mut tmp = self.cumulative_weights[i].clone();
                    tmp -= &prev_weight; // We know this is positive.
                    cumulative_weight += &tmp;
                }
            }
            prev_weight = cumulative_weight.clone();
            core::mem::swap(&mut prev_weight, &mut self.cumulative_weights[i]);
        }

        self.total_weight = total_weight;
        self.weight_distribution = X::Sampler::new(zero, self.total_weight.clone());

        Ok(())
    }
}

impl<X> Distribution<usize> for WeightedIndex<X>
where X: SampleUniform + PartialOrd
{
    fn sample<R: Rng + ?Sized>(&self, rng: &mut R) -> usize {
        use ::core::cmp::Ordering;
        let chosen_weight = self.weight_distribution.sample(rng);
        // Find the first item which has a weight *higher* than the chosen weight.
        self.cumulative_weights
            .binary_search_by(|w| {
                if *w <= chosen_weight {
                    Ordering::Less
                } else {
                    Ordering::Greater
                }
            })
            .unwrap_err()
    }
}

#[cfg(test)]
mod test {
    use super::*;

    #[cfg(feature = "serde1")]
    #[test]
    fn test_weightedindex_serde1() {
        let weighted_index = WeightedIndex::new(&[1, 2, 3, 4, 5, 6, 7, 8, 9, 10]).unwrap();

        let ser_weighted_index = bincode::serialize(&weighted_index).unwrap();
        let de_weighted_index: WeightedIndex<i32> =
            bincode::deserialize(&ser_weighted_index).unwrap();

        assert_eq!(
            de_weighted_index.cumulative_weights,
            weighted_index.cumulative_weights
        );
        assert_eq!(de_weighted_index.total_weight, weighted_index.total_weight);
    }

    #[test]
    fn test_accepting_nan(){
        assert_eq!(
            WeightedIndex::new(&[core::f32::NAN, 0.5]).unwrap_err(),
            WeightedError::InvalidWeight,
        );
        assert_eq!(
            WeightedIndex::new(&[core::f32::NAN]).unwrap_err(),
            WeightedError::InvalidWeight,
        );
        assert_eq!(
            WeightedIndex::new(&[0.5, core::f32::NAN]).unwrap_err(),
            WeightedError::InvalidWeight,
        );

        assert_eq!(
            WeightedIndex::new(&[0.5, 7.0])
                .unwrap()
                .update_weights(&[(0, &core::f32::NAN)])
                .unwrap_err(),
            WeightedError::InvalidWeight,
        )
    }


    #[test]
    #[cfg_attr(miri, ignore)] // Miri is too slow
    fn test_weightedindex() {
        let mut r = crate::test::rng(700);
        const N_REPS: u32 = 5000;
        let weights = [1u32, 2, 3, 0, 5, 6, 7, 1, 2, 3, 4, 5, 6, 7];
        let total_weight = weights.iter().sum::<u32>() as f32;

        let verify = |result: [i32; 14]| {
            for (i, count) in result.iter().enumerate() {
                let exp = (weights[i] * N_REPS) as f32 / total_weight;
                let mut err = (*count as f32 - exp).abs();
                if err != 0.0 {
                    err /= exp;
                }
                assert!(err <= 0.25);
            }
        };

        // WeightedIndex from vec
        let mut chosen = [0i32; 14];
        let distr = WeightedIndex::new(weights.to_vec()).unwrap();
        for _ in 0..N_REPS {
            chosen[distr.sample(&mut r)] += 1;
        }
        verify(chosen);

        // WeightedIndex from slice
        chosen = [0i32; 14];
        let distr = WeightedIndex::new(&weights[..]).unwrap();
        for _ in 0..N_REPS {
            chosen[distr.sample(&mut r)] += 1;
        }
        verify(chosen);

        // WeightedIndex from iterator
        chosen = [0i32; 14];
        let distr = WeightedIndex::new(weights.iter()).unwrap();
        for _ in 0..N_REPS {
            chosen[distr.sample(&mut r)] += 1;
        }
        verify(chosen);

        for _ in 0..5 {
            assert_eq!(WeightedIndex::new(&[0, 1]).unwrap().sample(&mut r), 1);
            assert_eq!(WeightedIndex::new(&[1, 0]).unwrap().sample(&mut r), 0);
            assert_eq!(
                WeightedIndex::new(&[0, 0, 0, 0, 10, 0])
                    .unwrap()
                    .sample(&mut r),
                4
            );
        }

        assert_eq!(
            WeightedIndex::new(&[10][0..0]).unwrap_err(),
            WeightedError::NoItem
        );
        assert_eq!(
            WeightedIndex::new(&[0]).unwrap_err(),
            WeightedError::AllWeightsZero
        );
        assert_eq!(
            WeightedIndex::new(&[10, 20, -1, 30]).unwrap_err(),
            WeightedError::InvalidWeight
        );
        assert_eq!(
            WeightedIndex::new(&[-10, 20, 1, 30]).unwrap_err(),
            WeightedError::InvalidWeight
        );
        assert_eq!(
            WeightedIndex::new(&[-10]).unwrap_err(),
            WeightedError::InvalidWeight
        );
    }

    #[test]
    fn test_update_weights() {
        let data = [
            (
                &[10u32, 2, 3, 4][..],
                &[(1, &100), (2, &4)][..], // positive change
                &[10, 100, 4, 4][..],
            ),
            (
                &[1u32, 2, 3, 0, 5, 6, 7, 1, 2, 3, 4, 5, 6, 7][..],
                &[(2, &1), (5, &1), (13, &100)][..], // negative change and last element
                &[1u32, 2, 1, 0, 5, 1, 7, 1, 2, 3, 4, 5, 6, 100][..],
            ),
        ];

        for (weights, update, expected_weights) in data.iter() {
            let total_weight = weights.iter().sum::<u32>();
            let mut distr = WeightedIndex::new(weights.to_vec()).unwrap();
            assert_eq!(distr.total_weight, total_weight);

            distr.update_weights(update).unwrap();
            let expected_total_weight = expected_weights.iter().sum::<u32>();
            let expected_distr = WeightedIndex::new(expected_weights.to_vec()).unwrap();
            assert_eq!(distr.total_weight, expected_total_weight);
            assert_eq!(distr.total_weight, expected_distr.total_weight);
            assert_eq!(distr.cumulative_weights, expected_distr.cumulative_weights);
        }
    }

    #[test]
    fn value_stability() {
        fn test_samples<X: SampleUniform + PartialOrd, I>(
            weights: I, buf: &mut [usize], expected: &[usize],
        ) where
            I: IntoIterator,
            I::Item: SampleBorrow<X>,
            X: for<'a> ::core::ops::AddAssign<&'a X> + Clone + Default,
        {
            assert_eq!(buf.len(), expected.len());
            let distr = WeightedIndex::new(weights).unwrap();
            let mut rng = crate::test::rng(701);
            for r in buf.iter_mut() {
                *r = rng.sample(&distr);
            }
            assert_eq!(buf, expected);
        }

        let mut buf = [0; 10];
        test_samples(&[1i32, 1, 1, 1, 1, 1, 1, 1, 1], &mut buf, &[
            0, 6, 2, 6, 3, 4, 7, 8, 2, 5,
        ]);
        test_samples(&[0.7f32, 0.1, 0.1, 0.1], &mut buf, &[
            0, 0, 0, 1, 0, 0, 2, 3, 0, 0,
        ]);
        test_samples(&[1.0f64, 0.999, 0.998, 0.997], &mut buf, &[
            2, 2, 1, 3, 2, 1, 3, 3, 2, 1,
        ]);
    }

    #[test]
    fn weighted_index_distributions_can_be_compared() {
        assert_eq!(WeightedIndex::new(&[1, 2]), WeightedIndex::new(&[1, 2]));
    }
}

/// Error type returned from `WeightedIndex::new`.
#[cfg_attr(docsrs, doc(cfg(feature = "alloc")))]
#[derive(Debug, Clone, Copy, PartialEq, Eq)]
pub enum WeightedError {
    /// The provided weight collection contains no items.
    NoItem,

    /// A weight is either less than zero, greater than the supported maximum,
    /// NaN, or otherwise invalid.
    InvalidWeight,

    /// All items in the provided weight collection are zero.
    AllWeightsZero,

    /// Too many weights are provided (length greater than `u32::MAX`)
    TooMany,
}

#[cfg(feature = "std")]
impl std::error::Error for WeightedError {}

impl fmt::Display for WeightedError {
    fn fmt(&self, f: &mut fmt::Formatter) -> fmt::Result {
        f.write_str(match *self {
            WeightedError::NoItem => "No weights provided in distribution",
            WeightedError::InvalidWeight => "A weight is invalid in distribution",
            WeightedError::AllWeightsZero => "All weights are zero in distribution",
            WeightedError::TooMany => "Too many weights (hit u32::MAX) in distribution",
        })
    }
}
