// Copyright 2018 Developers of the Rand project.
//
// Licensed under the Apache License, Version 2.0 <LICENSE-APACHE or
// https://www.apache.org/licenses/LICENSE-2.0> or the MIT license
// <LICENSE-MIT or https://opensource.org/licenses/MIT>, at your
// option. This file may not be copied, modified, or distributed
// except according to those terms.

//! Sequence-related functionality
//!
//! This module provides:
//!
//! *   [`SliceRandom`] slice sampling and mutation
//! *   [`IteratorRandom`] iterator sampling
//! *   [`index::sample`] low-level API to choose multiple indices from
//!     `0..length`
//!
//! Also see:
//!
//! *   [`crate::distributions::WeightedIndex`] distribution which provides
//!     weighted index sampling.
//!
//! In order to make results reproducible across 32-64 bit architectures, all
//! `usize` indices are sampled as a `u32` where possible (also providing a
//! small performance boost in some cases).


#[cfg(feature = "alloc")]
#[cfg_attr(docsrs, doc(cfg(feature = "alloc")))]
pub mod index;

#[cfg(feature = "alloc")] use core::ops::Index;

#[cfg(feature = "alloc")] use alloc::vec::Vec;

#[cfg(feature = "alloc")]
use crate::distributions::uniform::{SampleBorrow, SampleUniform};
#[cfg(feature = "alloc")] use crate::distributions::WeightedError;
use crate::Rng;

/// Extension trait on slices, providing random mutation and sampling methods.
///
/// This trait is implemented on all `[T]` slice types, providing several
/// methods for choosing and shuffling elements. You must `use` this trait:
///
/// ```
/// use rand::seq::SliceRandom;
///
/// let mut rng = rand::thread_rng();
/// let mut bytes = "Hello, random!".to_string().into_bytes();
/// bytes.shuffle(&mut rng);
/// let str = String::from_utf8(bytes).unwrap();
/// println!("{}", str);
/// ```
/// Example output (non-deterministic):
/// ```none
/// l,nmroHado !le
/// ```
pub trait SliceRandom {
    /// The element type.
    type Item;

    /// Returns a reference to one random element of the slice, or `None` if the
    /// slice is empty.
    ///
    /// For slices, complexity is `O(1)`.
    ///
    /// # Example
    ///
    /// ```
    /// use rand::thread_rng;
    /// use rand::seq::SliceRandom;
    ///
    /// let choices = [1, 2, 4, 8, 16, 32];
    /// let mut rng = thread_rng();
    /// println!("{:?}", choices.choose(&mut rng));
    /// assert_eq!(choices[..0].choose(&mut rng), None);
    /// ```
    fn choose<R>(&self, rng: &mut R) -> Option<&Self::Item>
    where R: Rng + ?Sized;

    /// Returns a mutable reference to one random element of the slice, or
    /// `None` if the slice is empty.
    ///
    /// For slices, complexity is `O(1)`.
    fn choose_mut<R>(&mut self, rng: &mut R) -> Option<&mut Self::Item>
    where R: Rng + ?Sized;

    /// Chooses `amount` elements from the slice at random, without repetition,
    /// and in random order. The returned iterator is appropriate both for
    /// collection into a `Vec` and filling an existing buffer (see example).
    ///
    /// In case this API is not sufficiently flexible, use [`index::sample`].
    ///
    /// For slices, complexity is the same as [`index::sample`].
    ///
    /// # Example
    /// ```
    /// use rand::seq::SliceRandom;
    ///
    /// let mut rng = &mut rand::thread_rng();
    /// let sample = "Hello, audience!".as_bytes();
    ///
    /// // collect the results into a vector:
    /// let v: Vec<u8> = sample.choose_multiple(&mut rng, 3).cloned().collect();
    ///
    /// // store in a buffer:
    /// let mut buf = [0u8; 5];
    /// for (b, slot) in sample.choose_multiple(&mut rng, buf.len()).zip(buf.iter_mut()) {
    ///     *slot = *b;
    /// }
    /// ```
    #[cfg(feature = "alloc")]
    #[cfg_attr(docsrs, doc(cfg(feature = "alloc")))]
    fn choose_multiple<R>(&self, rng: &mut R, amount: usize) -> SliceChooseIter<'_, Self, Self::Item>
    where R: Rng + ?Sized;

    /// Similar to [`choose`], but where the likelihood of each outcome may be
    /// specified.
    ///
    /// The specified function `weight` maps each item `x` to a relative
    /// likelihood `weight(x)`. The probability of each item being selected is
    /// therefore `weight(x) / s`, where `s` is the sum of all `weight(x)`.
    ///
    /// For slices of length `n`, complexity is `O(n)`.
    /// See also [`choose_weighted_mut`], [`distributions::weighted`].
    ///
    /// # Example
    ///
    /// ```
    /// use rand::prelude::*;
    ///
    /// let choices = [('a', 2), ('b', 1), ('c', 1)];
    /// let mut rng = thread_rng();
    /// // 50% chance to print 'a', 25% chance to print 'b', 25% chance to print 'c'
    /// println!("{:?}", choices.choose_weighted(&mut rng, |item| item.1).unwrap().0);
    /// ```
    /// [`choose`]: SliceRandom::choose
    /// [`choose_weighted_mut`]: SliceRandom::choose_weighted_mut
    /// [`distributions::weighted`]: crate::distributions::weighted
    #[cfg(feature = "alloc")]
    #[cfg_attr(docsrs, doc(cfg(feature = "alloc")))]
    fn choose_weighted<R, F, B, X>(
        &self, rng: &mut R, weight: F,
    ) -> Result<&Self::Item, WeightedError>
    where
        R: Rng + ?Sized,
        F: Fn(&Self::Item) -> B,
        B: SampleBorrow<X>,
        X: SampleUniform
            + for<'a> ::core::ops::AddAssign<&'a X>
            + ::core::cmp::PartialOrd<X>
            + Clone
            + Default;

    /// Similar to [`choose_mut`], but where the likelihood of each outcome may
    /// be specified.
    ///
    /// The specified function `weight` maps each item `x` to a relative
    /// likelihood `weight(x)`. The probability of each item being selected is
    /// therefore `weight(x) / s`, where `s` is the sum of all `weight(x)`.
    ///
    /// For slices of length `n`, complexity is `O(n)`.
    /// See also [`choose_weighted`], [`distributions::weighted`].
    ///
    /// [`choose_mut`]: SliceRandom::choose_mut
    /// [`choose_weighted`]: SliceRandom::choose_weighted
    /// [`distributions::weighted`]: crate::distributions::weighted
    #[cfg(feature = "alloc")]
    #[cfg_attr(docsrs, doc(cfg(feature = "alloc")))]
    fn choose_weighted_mut<R, F, B, X>(
        &mut self, rng: &mut R, weight: F,
    ) -> Result<&mut Self::Item, WeightedError>
    where
        R: Rng + ?Sized,
        F: Fn(&Self::Item) -> B,
        B: SampleBorrow<X>,
        X: SampleUniform
            + for<'a> ::core::ops::AddAssign<&'a X>
            + ::core::cmp::PartialOrd<X>
            + Clone
            + Default;

    /// Similar to [`choose_multiple`], but where the likelihood of each element's
    /// inclusion in the output may be specified. The elements are returned in an
    /// arbitrary, unspecified order.
    ///
    /// The specified function `weight` maps each item `x` to a relative
    /// likelihood `weight(x)`. The probability of each item being selected is
    /// therefore `weight(x) / s`, where `s` is the sum of all `weight(x)`.
    ///
    /// If all of the weights are equal, even if they are all zero, each element has
    /// an equal likelihood of being selected.
    ///
    /// The complexity of this method depends on the feature `partition_at_index`.
    /// If the feature is enabled, then for slices of length `n`, the complexity
    /// is `O(n)` space and `O(n)` time. Otherwise, the complexity is `O(n)` space and
    /// `O(n * log amount)` time.
    ///
    /// # Example
    ///
    /// ```
    /// use rand::prelude::*;
    ///
    /// let choices = [('a', 2), ('b', 1), ('c', 1)];
    /// let mut rng = thread_rng();
    /// // First Draw * Second Draw = total odds
    /// // -----------------------
    /// // (50% * 50%) + (25% * 67%) = 41.7% chance that the output is `['a', 'b']` in some order.
    /// // (50% * 50%) + (25% * 67%) = 41.7% chance that the output is `['a', 'c']` in some order.
    /// // (25% * 33%) + (25% * 33%) = 16.6% chance that the output is `['b', 'c']` in some order.
    /// println!("{:?}", choices.choose_multiple_weighted(&mut rng, 2, |item| item.1).unwrap().collect::<Vec<_>>());
    /// ```
    /// [`choose_multiple`]: SliceRandom::choose_multiple
    //
    // Note: this is feature-gated on std due to usage of f64::powf.
    // If necessary, we may use alloc+libm as an alternative (see PR #1089).
    #[cfg(feature = "std")]
    #[cfg_attr(docsrs, doc(cfg(feature = "std")))]
    fn choose_multiple_weighted<R, F, X>(
        &self, rng: &mut R, amount: usize, weight: F,
    ) -> Result<SliceChooseIter<'_, Self, Self::Item>, WeightedError>
    where
        R: Rng + ?Sized,
        F: Fn(&Self::Item) -> X,
        X: Into<f64>;

    /// Shuffle a mutable slice in place.
    ///
    /// For slices of length `n`, complexity is `O(n)`.
    ///
    /// # Example
    ///
    /// ```
    /// use rand::seq::SliceRandom;
    /// use rand::thread_rng;
    ///
    /// let mut rng = thread_rng();
    /// let mut y = [1, 2, 3, 4, 5];
    /// println!("Unshuffled: {:?}", y);
    /// y.shuffle(&mut rng);
    /// println!("Shuffled:   {:?}", y);
    /// ```
    fn shuffle<R>(&mut self, rng: &mut R)
    where R: Rng + ?Sized;

    /// Shuffle a slice in place, but exit early.
    ///
    /// Returns two mutable slices from the source slice. The first contains
    /// `amount` elements randomly permuted. The second has the remaining
    /// elements that are not fully shuffled.
    ///
    /// This is an efficient method to select `amount` elements at random from
    /// the slice, provided the slice may be mutated.
    ///
    /// If you only need to choose elements randomly and `amount > self.len()/2`
    /// then you may improve performance by taking
    /// `amount = values.len() - amount` and using only the second slice.
    ///
    /// If `amount` is greater than the number of elements in the slice, this
    /// will perform a full shuffle.
    ///
    /// For slices, complexity is `O(m)` where `m = amount`.
    fn partial_shuffle<R>(
        &mut self, rng: &mut R, amount: usize,
    ) -> (&mut [Self::Item], &mut [Self::Item])
    where R: Rng + ?Sized;
}

/// Extension trait on iterators, providing random sampling methods.
///
/// This trait is implemented on all iterators `I` where `I: Iterator + Sized`
/// and provides methods for
/// choosing one or more elements. You must `use` this trait:
///
/// ```
/// use rand::seq::IteratorRandom;
///
/// let mut rng = rand::thread_rng();
///
/// let faces = "😀😎😐😕😠😢";
/// println!("I am {}!", faces.chars().choose(&mut rng).unwrap());
/// ```
/// Example output (non-deterministic):
/// ```none
/// I am 😀!
/// ```
pub trait IteratorRandom: Iterator + Sized {
    /// Choose one element at random from the iterator.
    ///
    /// Returns `None` if and only if the iterator is empty.
    ///
    /// This method uses [`Iterator::size_hint`] for optimisation. With an
    /// accurate hint and where [`Iterator::nth`] is a constant-time operation
    /// this method can offer `O(1)` performance. Where no size hint is
    /// available, complexity is `O(n)` where `n` is the iterator length.
    /// Partial hints (where `lower > 0`) also improve performance.
    ///
    /// Note that the output values and the number of RNG samples used
    /// depends on size hints. In particular, `Iterator` combinators that don't
    /// change the values yielded but change the size hints may result in
    /// `choose` returning different elements. If you want consistent results
    /// and RNG usage consider using [`IteratorRandom::choose_stable`].
    fn choose<R>(mut self, rng: &mut R) -> Option<Self::Item>
    where R: Rng + ?Sized {
        let (mut lower, mut upper) = self.size_hint();
        let mut consumed = 0;
        let mut result = None;

        // Handling for this condition outside the loop allows the optimizer to eliminate the loop
        // when the Iterator is an ExactSizeIterator. This has a large performance impact on e.g.
        // seq_iter_choose_from_1000.
        if upper == Some(lower) {
            return if lower == 0 {
                None
            } else {
                self.nth(gen_index(rng, lower))
            };
        }

        // Continue until the iterator is exhausted
        loop {
            if lower > 1 {
                let ix = gen_index(rng, lower + consumed);
                let skip = if ix < lower {
                    result = self.nth(ix);
                    lower - (ix + 1)
                } else {
                    lower
                };
                if upper == Some(lower) {
                    return result;
                }
                consumed += lower;
                if skip > 0 {
                    self.nth(skip - 1);
                }
            } else {
                let elem = self.next();
                if elem.is_none() {
                    return result;
                }
                consumed += 1;
                if gen_index(rng, consumed) == 0 {
                    result = elem;
                }
            }

            let hint = self.size_hint();
            lower = hint.0;
            upper = hint.1;
        }
    }

    /// Choose one element at random from the iterator.
    ///
    /// Returns `None` if and only if the iterator is empty.
    ///
    /// This method is very similar to [`choose`] except that the result
    /// only depends on the length of the iterator and the values produced by
    /// `rng`. Notably for any iterator of a given length this will make the
    /// same requests to `rng` and if the same sequence of values are produced
    /// the same index will be selected from `self`. This may be useful if you
    /// need consistent results no matter what type of iterator you are working
    /// with. If you do not need this stability prefer [`choose`].
    ///
    /// Note that this method still uses [`Iterator::size_hint`] to skip
    /// constructing elements where possible, however the selection and `rng`
    /// calls are the same in the face of this optimization. If you want to
    /// force every element to be created regardless call `.inspect(|e| ())`.
    ///
    /// [`choose`]: IteratorRandom::choose
    fn choose_stable<R>(mut self, rng: &mut R) -> Option<Self::Item>
    where R: Rng + ?Sized {
        let mut consumed = 0;
        let mut result = None;

        loop {
            // Currently the only way to skip elements is `nth()`. So we need to
            // store what index to access next here.
            // This should be replaced by `advance_by()` once it is stable:
            // https://github.com/rust-lang/rust/issues/77404
            let mut next = 0;

            let (lower, _) = self.size_hint();
            if lower >= 2 {
                let highest_selected = (0..lower)
                    .filter(|ix| gen_index(rng, consumed+ix+1) == 0)
                    .last();

                consumed += lower;
                next = lower;

                if let Some(ix) = highest_selected {
                    result = self.nth(ix);
                    next -= ix + 1;
                    debug_assert!(result.is_some(), "iterator shorter than size_hint().0");
                }
            }

            let elem = self.nth(next);
            if elem.is_none() {
                return result
            }

            if gen_index(rng, consumed+1) == 0 {
                result = elem;
            }
            consumed += 1;
        }
    }

    /// Collects values at random from the iterator into a supplied buffer
    /// until that buffer is filled.
    ///
    /// Although the elements are selected randomly, the order of elements in
    /// the buffer is neither stable nor fully random. If random ordering is
    /// desired, shuffle the result.
    ///
    /// Returns the number of elements added to the buffer. This equals the length
    /// of the buffer unless the iterator contains insufficient elements, in which
    /// case this equals the number of elements available.
    ///
    /// Complexity is `O(n)` where `n` is the length of the iterator.
    /// For slices, prefer [`SliceRandom::choose_multiple`].
    fn choose_multiple_fill<R>(mut self, rng: &mut R, buf: &mut [Self::Item]) -> usize
    where R: Rng + ?Sized {
        let amount = buf.len();
        let mut len = 0;
        while len < amount {
            if let Some(elem) = self.next() {
                buf[len] = elem;
                len += 1;
            } else {
                // Iterator exhausted; stop early
                return len;
            }
        }

        // Continue, since the iterator was not exhausted
        for (i, elem) in self.enumerate() {
            let k = gen_index(rng, i + 1 + amount);
            if let Some(slot) = buf.get_mut(k) {
                *slot = elem;
            }
        }
        len
    }

    /// Collects `amount` values at random from the iterator into a vector.
    ///
    /// This is equivalent to `choose_multiple_fill` except for the result type.
    ///
    /// Although the elements are selected randomly, the order of elements in
    /// the buffer is neither stable nor fully random. If random ordering is
    /// desired, shuffle the result.
    ///
    /// The length of the returned vector equals `amount` unless the iterator
    /// contains insufficient elements, in which case it equals the number of
    /// elements available.
    ///
    /// Complexity is `O(n)` where `n` is the length of the iterator.
    /// For slices, prefer [`SliceRandom::choose_multiple`].
    #[cfg(feature = "alloc")]
    #[cfg_attr(docsrs, doc(cfg(feature = "alloc")))]
    fn choose_multiple<R>(mut self, rng: &mut R, amount: usize) -> Vec<Self::Item>
    where R: Rng + ?Sized {
        let mut reservoir = Vec::with_capacity(amount);
        reservoir.extend(self.by_ref().take(amount));

        // Continue unless the iterator was exhausted
        //
        // note: this prevents iterators that "restart" from causing problems.
        // If the iterator stops once, then so do we.
        if reservoir.len() == amount {
            for (i, elem) in self.enumerate() {
                let k = gen_index(rng, i + 1 + amount);
                if let Some(slot) = reservoir.get_mut(k) {
                    *slot = elem;
                }
            }
        } else {
            // Don't hang onto extra memory. There is a corner case where
            // `amount` was much less than `self.len()`.
            reservoir.shrink_to_fit();
        }
        reservoir
    }
}


impl<T> SliceRandom for [T] {
    type Item = T;

    fn choose<R>(&self, rng: &mut R) -> Option<&Self::Item>
    where R: Rng + ?Sized {
        if self.is_empty() {
            None
        } else {
            Some(&self[gen_index(rng, self.len())])
        }
    }

    fn choose_mut<R>(&mut self, rng: &mut R) -> Option<&mut Self::Item>
    where R: Rng + ?Sized {
        if self.is_empty() {
            None
        } else {
            let len = self.len();
            Some(&mut self[gen_index(rng, len)])
        }
    }

    #[cfg(feature = "alloc")]
    fn choose_multiple<R>(&self, rng: &mut R, amount: usize) -> SliceChooseIter<'_, Self, Self::Item>
    where R: Rng + ?Sized {
        let amount = ::core::cmp::min(amount, self.len());
        SliceChooseIter {
            slice: self,
            _phantom: Default::default(),
            indices: index::sample(rng, self.len(), amount).into_iter(),
        }
    }

    #[cfg(feature = "alloc")]
    fn choose_weighted<R, F, B, X>(
        &self, rng: &mut R, weight: F,
    ) -> Result<&Self::Item, WeightedError>
    where
        R: Rng + ?Sized,
        F: Fn(&Self::Item) -> B,
        B: SampleBorrow<X>,
        X: SampleUniform
            + for<'a> ::core::ops::AddAssign<&'a X>
            + ::core::cmp::PartialOrd<X>
            + Clone
            + Default,
    {
        use crate::distributions::{Distribution, WeightedIndex};
        let distr = WeightedIndex::new(self.iter().map(weight))?;
        Ok(&self[distr.sample(rng)])
    }

    #[cfg(feature = "alloc")]
    fn choose_weighted_mut<R, F, B, X>(
        &mut self, rng: &mut R, weight: F,
    ) -> Result<&mut Self::Item, WeightedError>
    where
        R: Rng + ?Sized,
        F: Fn(&Self::Item) -> B,
        B: SampleBorrow<X>,
        X: SampleUniform
            + for<'a> ::core::ops::AddAssign<&'a X>
            + ::core::cmp::PartialOrd<X>
            + Clone
            + Default,
    {
        use crate::distributions::{Distribution, WeightedIndex};
        let distr = WeightedIndex::new(self.iter().map(weight))?;
        Ok(&mut self[distr.sample(rng)])
    }

    #[cfg(feature = "std")]
    fn choose_multiple_weighted<R, F, X>(
        &self, rng: &mut R, amount: usize, weight: F,
    ) -> Result<SliceChooseIter<'_, Self, Self::Item>, WeightedError>
    where
        R: Rng + ?Sized,
        F: Fn(&Self::Item) -> X,
        X: Into<f64>,
    {
        let amount = ::core::cmp::min(amount, self.len());
        Ok(SliceChooseIter {
            slice: self,
            _phantom: Default::default(),
            indices: index::sample_weighted(
                rng,
                self.len(),
                |idx| weight(&self[idx]).into(),
                amount,
            )?
            .into_iter(),
        })
    }

    fn shuffle<R>(&mut self, rng: &mut R)
    where R: Rng + ?Sized {
        for i in (1..self.len()).rev() {
            // invariant: elements with index > i have been locked in place.
            self.swap(i, gen_index(rng, i + 1));
        }
    }

    fn partial_shuffle<R>(
        &mut self, rng: &mut R, amount: usize,
    ) -> (&mut [Self::Item], &mut [Self::Item])
    where R: Rng + ?Sized {
        // This applies Durstenfeld's algorithm for the
        // [Fisher–Yates shuffle](https://en.wikipedia.org/wiki/Fisher%E2%80%93Yates_shuffle#The_modern_algorithm)
        // for an unbiased permutation, but exits early after choosing `amount`
        // elements.

        let len = self.len();
        let end = if amount >= len { 0 } else { len - amount };

        for i in (end..len).rev() {
            // invariant: elements with index > i have been locked in place.
            self.swap(i, gen_index(rng, i + 1));
        }
        let r = self.split_at_mut(end);
        (r.1, r.0)
    }
}

impl<I> IteratorRandom for I where I: Iterator + Sized {}


/// An iterator over multiple slice elements.
///
/// This struct is created by
/// [`SliceRandom::choose_multiple`](trait.SliceRandom.html#tymethod.choose_multiple).
#[cfg(feature = "alloc")]
#[cfg_attr(docsrs, doc(cfg(feature = "alloc")))]
#[derive(Debug)]
pub struct SliceChooseIter<'a, S: ?Sized + 'a, T: 'a> {
    slice: &'a S,
    _phantom: ::core::marker::PhantomData<T>,
    indices: index::IndexVecIntoIter,
}

#[cfg(feature = "alloc")]
impl<'a, S: Index<usize, Output = T> + ?Sized + 'a, T: 'a> Iterator for SliceChooseIter<'a, S, T> {
    type Item = &'a T;

    fn next(&mut self) -> Option<Self::Item> {
        // TODO: investigate using SliceIndex::get_unchecked when stable
        self.indices.next().map(|i| &self.slice[i as usize])
    }

    fn size_hint(&self) -> (usize, Option<usize>) {
        (self.indices.len(), Some(self.indices.len()))
    }
}

#[cfg(feature = "alloc")]
impl<'a, S: Index<usize, Output = T> + ?Sized + 'a, T: 'a> ExactSizeIterator
    for SliceChooseIter<'a, S, T>
{
    fn len(&self) -> usize {
        self.indices.len()
    }
}


// Sample a number uniformly between 0 and `ubound`. Uses 32-bit sampling where
// possible, primarily in order to produce the same output on 32-bit and 64-bit
// platforms.
#[inline]
fn gen_index<R: Rng + ?Sized>(rng: &mut R, ubound: usize) -> usize {
    if ubound <= (core::u32::MAX as usize) {
        rng.gen_range(0..ubound as u32) as usize
    } else {
        rng.gen_range(0..ubound)
    }
}


#[cfg(test)]
mod test {
    use super::*;
    #[cfg(feature = "alloc")] use crate::Rng;
    #[cfg(all(feature = "alloc", not(feature = "std")))] use alloc::vec::Vec;

    #[test]
    fn test_slice_choose() {
        let mut r = crate::test::rng(107);
        let chars = [
            'a', 'b', 'c', 'd', 'e', 'f', 'g', 'h', 'i', 'j', 'k', 'l', 'm', 'n',
        ];
        let mut chosen = [0i32; 14];
        // The below all use a binomial distribution with n=1000, p=1/14.
        // binocdf(40, 1000, 1/14) ~= 2e-5; 1-binocdf(106, ..) ~= 2e-5
        for _ in 0..1000 {
            let picked = *chars.choose(&mut r).unwrap();
            chosen[(picked as usize) - ('a' as usize)] += 1;
        }
        for count in chosen.iter() {
            assert!(40 < *count && *count < 106);
        }

        chosen.iter_mut().for_each(|x| *x = 0);
        for _ in 0..1000 {
            *chosen.choose_mut(&mut r).unwrap() += 1;
        }
        for count in chosen.iter() {
            assert!(40 < *count && *count < 106);
        }

        let mut v: [isize; 0] = [];
        assert_eq!(v.choose(&mut r), None);
        assert_eq!(v.choose_mut(&mut r), None);
    }

    #[test]
    fn value_stability_slice() {
        let mut r = crate::test::rng(413);
        let chars = [
            'a', 'b', 'c', 'd', 'e', 'f', 'g', 'h', 'i', 'j', 'k', 'l', 'm', 'n',
        ];
        let mut nums = [0, 1, 2, 3, 4, 5, 6, 7, 8, 9, 10, 11, 12];

        assert_eq!(chars.choose(&mut r), Some(&'l'));
        assert_eq!(nums.choose_mut(&mut r), Some(&mut 10));

        #[cfg(feature = "alloc")]
        assert_eq!(
            &chars
                .choose_multiple(&mut r, 8)
                .cloned()
                .collect::<Vec<char>>(),
            &['d', 'm', 'b', 'n', 'c', 'k', 'h', 'e']
        );

        #[cfg(feature = "alloc")]
        assert_eq!(chars.choose_weighted(&mut r, |_| 1), Ok(&'f'));
        #[cfg(feature = "alloc")]
        assert_eq!(nums.choose_weighted_mut(&mut r, |_| 1), Ok(&mut 5));

        let mut r = crate::test::rng(414);
        nums.shuffle(&mut r);
        assert_eq!(nums, [9, 5, 3, 10, 7, 12, 8, 11, 6, 4, 0, 2, 1]);
        nums = [0, 1, 2, 3, 4, 5, 6, 7, 8, 9, 10, 11, 12];
        let res = nums.partial_shuffle(&mut r, 6);
        assert_eq!(res.0, &mut [7, 4, 8, 6, 9, 3]);
        assert_eq!(res.1, &mut [0, 1, 2, 12, 11, 5, 10]);
    }

    #[derive(Clone)]
    struct UnhintedIterator<I: Iterator + Clone> {
        iter: I,
    }
    impl<I: Iterator + Clone> Iterator for UnhintedIterator<I> {
        type Item = I::Item;

        fn next(&mut self) -> Option<Self::Item> {
            self.iter.next()
        }
    }

    #[derive(Clone)]
    struct ChunkHintedIterator<I: ExactSizeIterator + Iterator + Clone> {
        iter: I,
        chunk_remaining: usize,
        chunk_size: usize,
        hint_total_size: bool,
    }
    impl<I: ExactSizeIterator + Iterator + Clone> Iterator for ChunkHintedIterator<I> {
        type Item = I::Item;

        fn next(&mut self) -> Option<Self::Item> {
            if self.chunk_remaining == 0 {
                self.chunk_remaining = ::core::cmp::min(self.chunk_size, self.iter.len());
            }
            self.chunk_remaining = self.chunk_remaining.saturating_sub(1);

            self.iter.next()
        }

        fn size_hint(&self) -> (usize, Option<usize>) {
            (
                self.chunk_remaining,
                if self.hint_total_size {
                    Some(self.iter.len())
                } else {
                    None
                },
            )
        }
    }

    #[derive(Clone)]
    struct WindowHintedIterator<I: ExactSizeIterator + Iterator + Clone> {
        iter: I,
        window_size: usize,
        hint_total_size: bool,
    }
    impl<I: ExactSizeIterator + Iterator + Clone> Iterator for WindowHintedIterator<I> {
        type Item = I::Item;

        fn next(&mut self) -> Option<Self::Item> {
            self.iter.next()
        }

        fn size_hint(&self) -> (usize, Option<usize>) {
            (
                ::core::cmp::min(self.iter.len(), self.window_size),
                if self.hint_total_size {
                    Some(self.iter.len())
                } else {
                    None
                },
            )
        }
    }

    #[test]
    #[cfg_attr(miri, ignore)] // Miri is too slow
    fn test_iterator_choose() {
        let r = &mut crate::test::rng(109);
        fn test_iter<R: Rng + ?Sized, Iter: Iterator<Item = usize> + Clone>(r: &mut R, iter: Iter) {
            let mut chosen = [0i32; 9];
            for _ in 0..1000 {
                let picked = iter.clone().choose(r).unwrap();
                chosen[picked] += 1;
            }
            for count in chosen.iter() {
                // Samples should follow Binomial(1000, 1/9)
                // Octave: binopdf(x, 1000, 1/9) gives the prob of *count == x
                // Note: have seen 153, which is unlikely but not impossible.
                assert!(
                    72 < *count && *count < 154,
                    "count not close to 1000/9: {}",
                    count
                );
            }
        }

        test_iter(r, 0..9);
        test_iter(r, [0, 1, 2, 3, 4, 5, 6, 7, 8].iter().cloned());
        #[cfg(feature = "alloc")]
        test_iter(r, (0..9).collect::<Vec<_>>().into_iter());
        test_iter(r, UnhintedIterator { iter: 0..9 });
        test_iter(r, ChunkHintedIterator {
            iter: 0..9,
            chunk_size: 4,
            chunk_remaining: 4,
            hint_total_size: false,
        });
        test_iter(r, ChunkHintedIterator {
            iter: 0..9,
            chunk_size: 4,
            chunk_remaining: 4,
            hint_total_size: true,
        });
        test_iter(r, WindowHintedIterator {
            iter: 0..9,
            window_size: 2,
            hint_total_size: false,
        });
        test_iter(r, WindowHintedIterator {
            iter: 0..9,
            window_size: 2,
            hint_total_size: true,
        });

        assert_eq!((0..0).choose(r), None);
        assert_eq!(UnhintedIterator { iter: 0..0 }.choose(r), None);
    }

    #[test]
    #[cfg_attr(miri, ignore)] // Miri is too slow
    fn test_iterator_choose_stable() {
        let r = &mut crate::test::rng(109);
        fn test_iter<R: Rng + ?Sized, Iter: Iterator<Item = usize> + Clone>(r: &mut R, iter: Iter) {
            let mut chosen = [0i32; 9];
            for _ in 0..1000 {
                let picked = iter.clone().choose_stable(r).unwrap();
                chosen[picked] += 1;
            }
            for count in chosen.iter() {
                // Samples should follow Binomial(1000, 1/9)
                // Octave: binopdf(x, 1000, 1/9) gives the prob of *count == x
                // Note: have seen 153, which is unlikely but not impossible.
                assert!(
                    72 < *count && *count < 154,
                    "count not close to 1000/9: {}",
                    count
                );
            }
        }

        test_iter(r, 0..9);
        test_iter(r, [0, 1, 2, 3, 4, 5, 6, 7, 8].iter().cloned());
        #[cfg(feature = "alloc")]
        test_iter(r, (0..9).collect::<Vec<_>>().into_iter());
        test_iter(r, UnhintedIterator { iter: 0..9 });
        test_iter(r, ChunkHintedIterator {
            iter: 0..9,
            chunk_size: 4,
            chunk_remaining: 4,
            hint_total_size: false,
        });
        test_iter(r, ChunkHintedIterator {
            iter: 0..9,
            chunk_size: 4,
            chunk_remaining: 4,
            hint_total_size: true,
        });
        test_iter(r, WindowHintedIterator {
            iter: 0..9,
            window_size: 2,
            hint_total_size: false,
        });
        test_iter(r, WindowHintedIterator {
            iter: 0..9,
            window_size: 2,
            hint_total_size: true,
        });

        assert_eq!((0..0).choose(r), None);
        assert_eq!(UnhintedIterator { iter: 0..0 }.choose(r), None);
    }

    #[test]
    #[cfg_attr(miri, ignore)] // Miri is too slow
    fn test_iterator_choose_stable_stability() {
        fn test_iter(iter: impl Iterator<Item = usize> + Clone) -> [i32; 9] {
            let r = &mut crate::test::rng(109);
            let mut chosen = [0i32; 9];
            for _ in 0..1000 {
                let picked = iter.clone().choose_stable(r).unwrap();
                chosen[picked] += 1;
            }
            chosen
        }

        let reference = test_iter(0..9);
        assert_eq!(test_iter([0, 1, 2, 3, 4, 5, 6, 7, 8].iter().cloned()), reference);

        #[cfg(feature = "alloc")]
        assert_eq!(test_iter((0..9).collect::<Vec<_>>().into_iter()), reference);
        assert_eq!(test_iter(UnhintedIterator { iter: 0..9 }), reference);
        assert_eq!(test_iter(ChunkHintedIterator {
            iter: 0..9,
            chunk_size: 4,
            chunk_remaining: 4,
            hint_total_size: false,
        }), reference);
        assert_eq!(test_iter(ChunkHintedIterator {
            iter: 0..9,
            chunk_size: 4,
            chunk_remaining: 4,
            hint_total_size: true,
        }), reference);
        assert_eq!(test_iter(WindowHintedIterator {
            iter: 0..9,
            window_size: 2,
            hint_total_size: false,
        }), reference);
        assert_eq!(test_iter(WindowHintedIterator {
            iter: 0..9,
            window_size: 2,
            hint_total_size: true,
        }), reference);
    }

    #[test]
    #[cfg_attr(miri, ignore)] // Miri is too slow
    fn test_shuffle() {
        let mut r = crate::test::rng(108);
        let empty: &mut [isize] = &mut [];
        empty.shuffle(&mut r);
        let mut one = [1];
        one.shuffle(&mut r);
        let b: &[_] = &[1];
        assert_eq!(one, b);

        let mut two = [1, 2];
        two.shuffle(&mut r);
        assert!(two == [1, 2] || two == [2, 1]);

        fn move_last(slice: &mut [usize], pos: usize) {
            // use slice[pos..].rotate_left(1); once we can use that
            let last_val = slice[pos];
            for i in pos..slice.len() - 1 {
                slice[i] = slice[i + 1];
            }
            *slice.last_mut().unwrap() = last_val;
        }
        let mut counts = [0i32; 24];
        for _ in 0..10000 {
            let mut arr: [usize; 4] = [0, 1, 2, 3];
            arr.shuffle(&mut r);
            let mut permutation = 0usize;
            let mut pos_value = counts.len();
            for i in 0..4 {
                pos_value /= 4 - i;
                let pos = arr.iter().position(|&x| x == i).unwrap();
                assert!(pos < (4 - i));
                permutation += pos * pos_value;
                move_last(&mut arr, pos);
                assert_eq!(arr[3], i);
            }
            for (i, &a) in arr.iter().enumerate() {
                assert_eq!(a, i);
            }
            counts[permutation] += 1;
        }
        for count in counts.iter() {
            // Binomial(10000, 1/24) with average 416.667
            // Octave: binocdf(n, 10000, 1/24)
            // 99.9% chance samples lie within this range:
            assert!(352 <= *count && *count <= 483, "count: {}", count);
        }
    }

    #[test]
    fn test_partial_shuffle() {
        let mut r = crate::test::rng(118);

        let mut empty: [u32; 0] = [];
        let res = empty.partial_shuffle(&mut r, 10);
        assert_eq!((res.0.len(), res.1.len()), (0, 0));

        let mut v = [1, 2, 3, 4, 5];
        let res = v.partial_shuffle(&mut r, 2);
        assert_eq!((res.0.len(), res.1.len()), (2, 3));
        assert!(res.0[0] != res.0[1]);
        // First elements are only modified if selected, so at least one isn't modified:
        assert!(res.1[0] == 1 || res.1[1] == 2 || res.1[2] == 3);
    }

    #[test]
    #[cfg(feature = "alloc")]
    fn test_sample_iter() {
        let min_val = 1;
        let max_val = 100;

        let mut r = crate::test::rng(401);
        let vals = (min_val..max_val).collect::<Vec<i32>>();
        let small_sample = vals.iter().choose_multiple(&mut r, 5);
        let large_sample = vals.iter().choose_multiple(&mut r, vals.len() + 5);

        assert_eq!(small_sample.len(), 5);
        assert_eq!(large_sample.len(), vals.len());
        // no randomization happens when amount >= len
        assert_eq!(large_sample, vals.iter().collect::<Vec<_>>());

        assert!(small_sample
            .iter()
            .all(|e| { **e >= min_val && **e <= max_val }));
    }

    #[test]
    #[cfg(feature = "alloc")]
    #[cfg_attr(miri, ignore)] // Miri is too slow
    fn test_weighted() {
        let mut r = crate::test::rng(406);
        const N_REPS: u32 = 3000;
        let weights = [1u32, 2, 3, 0, 5, 6, 7, 1, 2, 3, 4, 5, 6, 7];
        let total_weight = weights.iter().sum::<u32>() as f32;

        let verify = |result: [i32; 14]| {
            for (i, count) in result.iter().enumerate() {
                let exp = (weights[i] * N_REPS) as f32 / total_weight;
                let mut err = (*count as f32 - exp).abs();
                if err != 0.0 {
                    err /= exp;
                }
                assert!(err <= 0.25);
            }
        };

        // choose_weighted
        fn get_weight<T>(item: &(u32, T)) -> u32 {
            item.0
        }
        let mut chosen = [0i32; 14];
        let mut items = [(0u32, 0usize); 14]; // (weight, index)
        for (i, item) in items.iter_mut().enumerate() {
            *item = (weights[i], i);
        }
        for _ in 0..N_REPS {
            let item = items.choose_weighted(&mut r, get_weight).unwrap();
            chosen[item.1] += 1;
        }
        verify(chosen);

        // choose_weighted_mut
        let mut items = [(0u32, 0i32); 14]; // (weight, count)
        for (i, item) in items.iter_mut().enumerate() {
            *item = (weights[i], 0);
        }
        for _ in 0..N_REPS {
            items.choose_weighted_mut(&mut r, get_weight).unwrap().1 += 1;
        }
        for (ch, item) in chosen.iter_mut().zip(items.iter()) {
            *ch = item.1;
        }
        verify(chosen);

        // Check error cases
        let empty_slice = &mut [10][0..0];
        assert_eq!(
            empty_slice.choose_weighted(&mut r, |_| 1),
            Err(WeightedError::NoItem)
        );
        assert_eq!(
            empty_slice.choose_weighted_mut(&mut r, |_| 1),
            Err(WeightedError::NoItem)
        );
        assert_eq!(
            ['x'].choose_weighted_mut(&mut r, |_| 0),
            Err(WeightedError::AllWeightsZero)
        );
        assert_eq!(
            [0, -1].choose_weighted_mut(&mut r, |x| *x),
            Err(WeightedError::InvalidWeight)
        );
        assert_eq!(
            [-1, 0].choose_weighted_mut(&mut r, |x| *x),
            Err(WeightedError::InvalidWeight)
        );
    }

    #[test]
    fn value_stability_choose() {
        fn choose<I: Iterator<Item = u32>>(iter: I) -> Option<u32> {
            let mut rng = crate::test::rng(411);
            iter.choose(&mut rng)
        }

        assert_eq!(choose([].iter().cloned()), None);
        assert_eq!(choose(0..100), Some(33));
        assert_eq!(choose(UnhintedIterator { iter: 0..100 }), Some(40));
        assert_eq!(
            choose(ChunkHintedIterator {
                iter: 0..100,
                chunk_size: 32,
                chunk_remaining: 32,
                hint_total_size: false,
            }),
            Some(39)
        );
        assert_eq!(
            choose(ChunkHintedIterator {
                iter: 0..100,
                chunk_size: 32,
                chunk_remaining: 32,
                hint_total_size: true,
            }),
            Some(39)
        );
        assert_eq!(
            choose(WindowHintedIterator {
                iter: 0..100,
                window_size: 32,
                hint_total_size: false,
            }),
            Some(90)
        );
        assert_eq!(
            choose(WindowHintedIterator {
                iter: 0..100,
                window_size: 32,
                hint_total_size: true,
            }),
            Some(90)
        );
    }

    #[test]
    fn value_stability_choose_stable() {
        fn choose<I: Iterator<Item = u32>>(iter: I) -> Option<u32> {
            let mut rng = crate::test::rng(411);
            iter.choose_stable(&mut rng)
        }

        assert_eq!(choose([].iter().cloned()), None);
        assert_eq!(choose(0..100), Some(40));
        assert_eq!(choose(UnhintedIterator { iter: 0..100 }), Some(40));
        assert_eq!(
            choose(ChunkHintedIterator {
                iter: 0..100,
                chunk_size: 32,
                chunk_remaining: 32,
                hint_total_size: false,
            }),
            Some(40)
        );
        assert_eq!(
            choose(ChunkHintedIterator {
                iter: 0..100,
                chunk_size: 32,
                chunk_remaining: 32,
                hint_total_size: true,
            }),
            Some(40)
        );
        assert_eq!(
            choose(WindowHintedIterator {
                iter: 0..100,
                window_size: 32,
                hint_total_size: false,
            }),
            Some(40)
        );
        assert_eq!(
            choose(WindowHintedIterator {
                iter: 0..100,
                window_size: 32,
                hint_total_size: true,
            }),
            Some(40)
        );
    }

    #[test]
    fn value_stability_choose_multiple() {
        fn do_test<I: Iterator<Item = u32>>(iter: I, v: &[u32]) {
            let mut rng = crate::test::rng(412);
            let mut buf = [0u32; 8];
            assert_eq!(iter.choose_multiple_fill(&mut rng, &mut buf), v.len());
            assert_eq!(&buf[0..v.len()], v);
        }

        do_test(0..4, &[0, 1, 2, 3]);
        do_test(0..8, &[0, 1, 2, 3, 4, 5, 6, 7]);
        do_test(0..100, &[58, 78, 80, 92, 43, 8, 96, 7]);

        #[cfg(feature = "alloc")]
        {
            fn do_test<I: Iterator<Item = u32>>(iter: I, v: &[u32]) {
                let mut rng = crate::test::rng(412);
                assert_eq!(iter.choose_multiple(&mut rng, v.len()), v);
            }

            do_test(0..4, &[0, 1, 2, 3]);
            do_test(0..8, &[0, 1, 2, 3, 4, 5, 6, 7]);
            do_test(0..100, &[58, 78, 80, 92, 43, 8, 96, 7]);
        }
    }

    #[test]
    #[cfg(feature = "std")]
    fn test_multiple_weighted_edge_cases() {
        use super::*;

        let mut rng = crate::test::rng(413);

        // Case 1: One of the weights is 0
        let choices = [('a', 2), ('b', 1), ('c', 0)];
        for _ in 0..100 {
            let result = choices
                .choose_multiple_weighted(&mut rng, 2, |item| item.1)
                .unwrap()
                .collect::<Vec<_>>();

            assert_eq!(result.len(), 2);
            assert!(!result.iter().any(|val| val.0 == 'c'));
        }

        // Case 2: All of the weights are 0
        let choices = [('a', 0), ('b', 0), ('c', 0)];

        assert_eq!(choices
            .choose_multiple_weighted(&mut rng, 2, |item| item.1)
            .unwrap().count(), 2);

        // Case 3: Negative weights
        let choices = [('a', -1), ('b', 1), ('c', 1)];
        assert_eq!(
            choices
                .choose_multiple_weighted(&mut rng, 2, |item| item.1)
                .unwrap_err(),
            WeightedError::InvalidWeight
        );

        // Case 4: Empty list
        let choices = [];
        assert_eq!(choices
            .choose_multiple_weighted(&mut rng, 0, |_: &()| 0)
            .unwrap().count(), 0);

        // Case 5: NaN weights
        let choices = [('a', core::f64::NAN), ('b', 1.0), ('c', 1.0)];
        assert_eq!(
            choices
                .choose_multiple_weighted(&mut rng, 2, |item| item.1)
                .unwrap_err(),
            WeightedError::InvalidWeight
        );

        // Case 6: +infinity weights
        let choices = [('a', core::f64::INFINITY), ('b', 1.0), ('c', 1.0)];
        for _ in 0..100 {
            let result = choices
                .choose_multiple_weighted(&mut rng, 2, |item| item.1)
                .unwrap()
                .collect::<Vec<_>>();
            assert_eq!(result.len(), 2);
            assert!(result.iter().any(|val| val.0 == 'a'));
        }

        // Case 7: -infinity weights
        let choices = [('a', core::f64::NEG_INFINITY), ('b', 1.0), ('c', 1.0)];
        assert_eq!(
            choices
                .choose_multiple_weighted(&mut rng, 2, |item| item.1)
                .unwrap_err(),
            WeightedError::InvalidWeight
        );

        // Case 8: -0 weights
        let choices = [('a', -0.0), ('b', 1.0), ('c', 1.0)];
        assert!(choices
            .choose_multiple_weighted(&mut rng, 2, |item| item.1)
            .is_ok());
    }

    #[test]
    #[cfg(feature = "std")]
    #[cfg_attr(miri, ignore)] // Miri is too slow
    fn test_multiple_weighted_distributions() {
        use super::*;

        // The theoretical probabilities of the different outcomes are:
        // AB: 0.5  * 0.5  = 0.250
        // AC: 0.5  * 0.5  = 0.250
        // BA: 0.25 * 0.67 = 0.167
        // BC: 0.25 * 0.33 = 0.082
        // CA: 0.25 * 0.67 = 0.167
        // CB: 0.25 * 0.33 = 0.082
        let choices = [('a', 2), ('b', 1), ('c', 1)];
        let mut rng = crate::test::rng(414);

        let mut results = [0i32; 3];
        let expected_results = [4167, 4167, 1666];
        for _ in 0..10000 {
            let result = choices
                .choose_multiple_weighted(&mut rng, 2, |item| item.1)
                .unwrap()
                .collect::<Vec<_>>();

            assert_eq!(result.len(), 2);

            match (result[0].0, result[1].0) {
                ('a', 'b') | ('b', 'a') => {
                    results[0] += 1;
                }
                ('a', 'c') | ('c', 'a') => {
                    results[1] += 1;
                }
                ('b', 'c') | ('c', 'b') => {
                    results[2] += 1;
                }
                (_, _) => panic!("unexpected result"),
            }
        }

        let mut diffs = results
            .iter()
            .zip(&expected_results)
            .map(|(a, b)| (a - b).abs());
        assert!(!diffs.any(|deviation| deviation > 100));
    }
}
