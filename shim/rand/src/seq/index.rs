// Copyright 2018 Developers of the Rand project.
//
// Licensed under the Apache License, Version 2.0 <LICENSE-APACHE or
// https://www.apache.org/licenses/LICENSE-2.0> or the MIT license
// <LICENSE-MIT or https://opensource.org/licenses/MIT>, at your
// option. This file may not be copied, modified, or distributed
// except according to those terms.

//! Low-level API for sampling indices

#[cfg(feature = "alloc")] use core::slice;

#[cfg(feature = "alloc")] use alloc::vec::{self, Vec};
// BTreeMap is not as fast in tests, but better than nothing.
#[cfg(all(feature = "alloc", not(feature = "std")))]
use alloc::collections::BTreeSet;
#[cfg(feature = "std")] use std::collections::HashSet;

#[cfg(feature = "std")]
use crate::distributions::WeightedError;

#[cfg(feature = "alloc")]
use crate::{Rng, distributions::{uniform::SampleUniform, Distribution, Uniform}};

#[cfg(feature = "serde1")]
use serde::{Serialize, Deserialize};

/// A vector of indices.
///
/// Multiple internal representations are possible.
#[derive(Clone, Debug)]
#[cfg_attr(feature = "serde1", derive(Serialize, Deserialize))]
pub enum IndexVec {
    #[doc(hidden)]
    U32(Vec<u32>),
    #[doc(hidden)]
    USize(Vec<usize>),
}

impl IndexVec {
    /// Returns the number of indices
    #[inline]
    pub fn len(&self) -> usize {
        match *self {
            IndexVec::U32(ref v) => v.len(),
            IndexVec::USize(ref v) => v.len(),
        }
    }

    /// Returns `true` if the length is 0.
    #[inline]
    pub fn is_empty(&self) -> bool {
        match *self {
            IndexVec::U32(ref v) => v.is_empty(),
            IndexVec::USize(ref v) => v.is_empty(),
        }
    }

    /// Return the value at the given `index`.
    ///
    /// (Note: we cannot implement [`std::ops::Index`] because of lifetime
    /// restrictions.)
    #[inline]
    pub fn index(&self, index: usize) -> usize {
        match *self {
            IndexVec::U32(ref v) => v[index] as usize,
            IndexVec::USize(ref v) => v[index],
        }
    }

    /// Return result as a `Vec<usize>`. Conversion may or may not be trivial.
    #[inline]
    pub fn into_vec(self) -> Vec<usize> {
        match self {
            IndexVec::U32(v) => v.into_iter().map(|i| i as usize).collect(),
            IndexVec::USize(v) => v,
        }
    }

    /// Iterate over the indices as a sequence of `usize` values
    #[inline]
    pub fn iter(&self) -> IndexVecIter<'_> {
        match *self {
            IndexVec::U32(ref v) => IndexVecIter::U32(v.iter()),
            IndexVec::USize(ref v) => IndexVecIter::USize(v.iter()),
        }
    }
}

impl IntoIterator for IndexVec {
    type Item = usize;
    type IntoIter = IndexVecIntoIter;

    /// Convert into an iterator over the indices as a sequence of `usize` values
    #[inline]
    fn into_iter(self) -> IndexVecIntoIter {
        match self {
            IndexVec::U32(v) => IndexVecIntoIter::U32(v.into_iter()),
            IndexVec::USize(v) => IndexVecIntoIter::USize(v.into_iter()),
        }
    }
}

impl PartialEq for IndexVec {
    fn eq(&self, other: &IndexVec) -> bool {
        use self::IndexVec::*;
        match (self, other) {
            (&U32(ref v1), &U32(ref v2)) => v1 == v2,
            (&USize(ref v1), &USize(ref v2)) => v1 == v2,
            (&U32(ref v1), &USize(ref v2)) => {
                (v1.len() == v2.len()) && (v1.iter().zip(v2.iter()).all(|(x, y)| *x as usize == *y))
            }
            (&USize(ref v1), &U32(ref v2)) => {
                (v1.len() == v2.len()) && (v1.iter().zip(v2.iter()).all(|(x, y)| *x == *y as usize))
            }
        }
    }
}

impl From<Vec<u32>> for IndexVec {
    #[inline]
    fn from(v: Vec<u32>) -> Self {
        IndexVec::U32(v)
    }
}

impl From<Vec<usize>> for IndexVec {
    #[inline]
    fn from(v: Vec<usize>) -> Self {
        IndexVec::USize(v)
    }
}

/// Return type of `IndexVec::iter`.
#[derive(Debug)]
pub enum IndexVecIter<'a> {
    #[doc(hidden)]
    U32(slice::Iter<'a, u32>),
    #[doc(hidden)]
    USize(slice::Iter<'a, usize>),
}

impl<'a> Iterator for IndexVecIter<'a> {
    type Item = usize;

    #[inline]
    fn next(&mut self) -> Option<usize> {
        use self::IndexVecIter::*;
        match *self {
            U32(ref mut iter) => iter.next().map(|i| *i as usize),
            USize(ref mut iter) => iter.next().cloned(),
        }
    }

    #[inline]
    fn size_hint(&self) -> (usize, Option<usize>) {
        match *self {
            IndexVecIter::U32(ref v) => v.size_hint(),
            IndexVecIter::USize(ref v) => v.size_hint(),
        }
    }
}

impl<'a> ExactSizeIterator for IndexVecIter<'a> {}

/// Return type of `IndexVec::into_iter`.
#[derive(Clone, Debug)]
pub enum IndexVecIntoIter {
    #[doc(hidden)]
    U32(vec::IntoIter<u32>),
    #[doc(hidden)]
    USize(vec::IntoIter<usize>),
}

impl Iterator for IndexVecIntoIter {
    type Item = usize;

    #[inline]
    fn next(&mut self) -> Option<Self::Item> {
        use self::IndexVecIntoIter::*;
        match *self {
            U32(ref mut v) => v.next().map(|i| i as usize),
            USize(ref mut v) => v.next(),
        }
    }

    #[inline]
    fn size_hint(&self) -> (usize, Option<usize>) {
        use self::IndexVecIntoIter::*;
        match *self {
            U32(ref v) => v.size_hint(),
            USize(ref v) => v.size_hint(),
        }
    }
}

impl ExactSizeIterator for IndexVecIntoIter {}


/// Randomly sample exactly `amount` distinct indices from `0..length`, and
/// return them in random order (fully shuffled).
///
/// This method is used internally by the slice sampling methods, but it can
/// sometimes be useful to have the indices themselves so this is provided as
/// an alternative.
///
/// The implementation used is not specified; we automatically select the
/// fastest available algorithm for the `length` and `amount` parameters
/// (based on detailed profiling on an Intel Haswell CPU). Roughly speaking,
/// complexity is `O(amount)`, except that when `amount` is small, performance
/// is closer to `O(amount^2)`, and when `length` is close to `amount` then
/// `O(length)`.
///
/// Note that performance is significantly better over `u32` indices than over
/// `u64` indices. Because of this we hide the underlying type behind an
/// abstraction, `IndexVec`.
///
/// If an allocation-free `no_std` function is required, it is suggested
/// to adapt the internal `sample_floyd` implementation.
///
/// Panics if `amount > length`.
pub fn sample<R>(rng: &mut R, length: usize, amount: usize) -> IndexVec
where R: Rng + ?Sized {
    if amount > length {
        panic!("`amount` of samples must be less than or equal to `length`");
    }
    if length > (::core::u32::MAX as usize) {
        // We never want to use inplace here, but could use floyd's alg
        // Lazy version: always use the cache alg.
        return sample_rejection(rng, length, amount);
    }
    let amount = amount as u32;
    let length = length as u32;

    // Choice of algorithm here depends on both length and amount. See:
    // https://github.com/rust-random/rand/pull/479
    // We do some calculations with f32. Accuracy is not very important.

    if amount < 163 {
        const C: [[f32; 2]; 2] = [[1.6, 8.0 / 45.0], [10.0, 70.0 / 9.0]];
        let j = if length < 500_000 { 0 } else { 1 };
        let amount_fp = amount as f32;
        let m4 = C[0][j] * amount_fp;
        // Short-cut: when amount < 12, floyd's is always faster
        if amount > 11 && (length as f32) < (C[1][j] + m4) * amount_fp {
            sample_inplace(rng, length, amount)
        } else {
            sample_floyd(rng, length, amount)
        }
    } else {
        const C: [f32; 2] = [270.0, 330.0 / 9.0];
        let j = if length < 500_000 { 0 } else { 1 };
        if (length as f32) < C[j] * (amount as f32) {
            sample_inplace(rng, length, amount)
        } else {
            sample_rejection(rng, length, amount)
        }
    }
}

/// Randomly sample exactly `amount` distinct indices from `0..length`, and
/// return them in an arbitrary order (there is no guarantee of shuffling or
/// ordering). The weights are to be provided by the input function `weights`,
/// which will be called once for each index.
///
/// This method is used internally by the slice sampling methods, but it can
/// sometimes be useful to have the indices themselves so this is provided as
/// an alternative.
///
/// This implementation uses `O(length + amount)` space and `O(length)` time
/// if the "nightly" feature is enabled, or `O(length)` space and
/// `O(length + amount * log length)` time otherwise.
///
/// Panics if `amount > length`.
#[cfg(feature = "std")]
#[cfg_attr(docsrs, doc(cfg(feature = "std")))]
pub fn sample_weighted<R, F, X>(
    rng: &mut R, length: usize, weight: F, amount: usize,
) -> Result<IndexVec, WeightedError>
where
    R: Rng + ?Sized,
    F: Fn(usize) -> X,
    X: Into<f64>,
{
    if length > (core::u32::MAX as usize) {
        sample_efraimidis_spirakis(rng, length, weight, amount)
    } else {
        assert!(amount <= core::u32::MAX as usize);
        let amount = amount as u32;
        let length = length as u32;
        sample_efraimidis_spirakis(rng, length, weight, amount)
    }
}


/// Randomly sample exactly `amount` distinct indices from `0..length`, and
/// return them in an arbitrary order (there is no guarantee of shuffling or
/// ordering). The weights are to be provided by the input function `weights`,
/// which will be called once for each index.
///
/// This implementation uses the algorithm described by Efraimidis and Spirakis
/// in this paper: https://doi.org/10.1016/j.ipl.2005.11.003
/// It uses `O(length + amount)` space and `O(length)` time if the
/// "nightly" feature is enabled, or `O(length)` space and `O(length
/// + amount * log length)` time otherwise.
///
/// Panics if `amount > length`.
#[cfg(feature = "std")]
fn sample_efraimidis_spirakis<R, F, X, N>(
    rng: &mut R, length: N, weight: F, amount: N,
) -> Result<IndexVec, WeightedError>
where
    R: Rng + ?Sized,
    F: Fn(usize) -> X,
    X: Into<f64>,
    N: UInt,
    IndexVec: From<Vec<N>>,
{
    if amount == N::zero() {
        return Ok(IndexVec::U32(Vec::new()));
    }

    if amount > length {
        panic!("`amount` of samples must be less than or equal to `length`");
    }

    struct Element<N> {
        index: N,
        key: f64,
    }
    impl<N> PartialOrd for Element<N> {
        fn partial_cmp(&self, other: &Self) -> Option<core::cmp::Ordering> {
            self.key.partial_cmp(&other.key)
        }
    }
    impl<N> Ord for Element<N> {
        fn cmp(&self, other: &Self) -> core::cmp::Ordering {
             // partial_cmp will always produce a value,
             // because we check that the weights are not nan
            self.partial_cmp(other).unwrap()
        }
    }
    impl<N> PartialEq for Element<N> {
        fn eq(&self, other: &Self) -> bool {
            self.key == other.key
        }
    }
    impl<N> Eq for Element<N> {}

    #[cfg(feature = "nightly")]
    {
        let mut candidates = Vec::with_capacity(length.as_usize());
        let mut index = N::zero();
        while index < length {
            let weight = weight(index.as_usize()).into();
            if !(weight >= 0.) {
                return Err(WeightedError::InvalidWeight);
            }

            let key = rng.gen::<f64>().powf(1.0 / weight);
            candidates.push(Element { index, key });

            index += N::one();
        }

        // Partially sort the array to find the `amount` elements with the greatest
        // keys. Do this by using `select_nth_unstable` to put the elements with
        // the *smallest* keys at the beginning of the list in `O(n)` time, which
        // provides equivalent information about the elements with the *greatest* keys.
        let (_, mid, greater)
            = candidates.select_nth_unstable(length.as_usize() - amount.as_usize());

        let mut result: Vec<N> = Vec::with_capacity(amount.as_usize());
        result.push(mid.index);
        for element in greater {
            result.push(element.index);
        }
        Ok(IndexVec::from(result))
    }

    #[cfg(not(feature = "nightly"))]
    {
        use alloc::collections::BinaryHeap;

        // Partially sort the array such that the `amount` elements with the largest
        // keys are first using a binary max heap.
        let mut candidates = BinaryHeap::with_capacity(length.as_usize());
        let mut index = N::zero();
        while index < length {
            let weight = weight(index.as_usize()).into();
            if !(weight >= 0.) {
                return Err(WeightedError::InvalidWeight);
            }

            let key = rng.gen::<f64>().powf(1.0 / weight);
            candidates.push(Element { index, key });

            index += N::one();
        }

        let mut result: Vec<N> = Vec::with_capacity(amount.as_usize());
        while result.len() < amount.as_usize() {
            result.push(candidates.pop().unwrap().index);
        }
        Ok(IndexVec::from(result))
    }
}

/// Randomly sample exactly `amount` indices from `0..length`, using Floyd's
/// combination algorithm.
///
/// The output values are fully shuffled. (Overhead is under 50%.)
///
/// This implementation uses `O(amount)` memory and `O(amount^2)` time.
fn sample_floyd<R>(rng: &mut R, length: u32, amount: u32) -> IndexVec
where R: Rng + ?Sized {
    // For small amount we use Floyd's fully-shuffled variant. For larger
    // amounts this is slow due to Vec::insert performance, so we shuffle
    // afterwards. Benchmarks show little overhead from extra logic.
    let floyd_shuffle = amount < 50;

    debug_assert!(amount <= length);
    let mut indices = Vec::with_capacity(amount as usize);
    for j in length - amount..length {
        let t = rng.gen_range(0..=j);
        if floyd_shuffle {
            if let Some(pos) = indices.iter().position(|&x| x == t) {
                indices.insert(pos, j);
                continue;
            }
        } else if indices.contains(&t) {
            indices.push(j);
            continue;
        }
        indices.push(t);
    }
    if !floyd_shuffle {
        // Reimplement SliceRandom::shuffle with smaller indices
        for i in (1..amount).rev() {
            // invariant: elements with index > i have been locked in place.
            indices.swap(i as usize, rng.gen_range(0..=i) as usize);
        }
    }
    IndexVec::from(indices)
}

/// Randomly sample exactly `amount` indices from `0..length`, using an inplace
/// partial Fisher-Yates method.
/// Sample an amount of indices using an inplace partial fisher yates method.
///
/// This allocates the entire `length` of indices and randomizes only the first `amount`.
/// It then truncates to `amount` and returns.
///
/// This method is not appropriate for large `length` and potentially uses a lot
/// of memory; because of this we only implement for `u32` index (which improves
/// performance in all cases).
///
/// Set-up is `O(length)` time and memory and shuffling is `O(amount)` time.
fn sample_inplace<R>(rng: &mut R, length: u32, amount: u32) -> IndexVec
where R: Rng + ?Sized {
    debug_assert!(amount <= length);
    let mut indices: Vec<u32> = Vec::with_capacity(length as usize);
    indices.extend(0..length);
    for i in 0..amount {
        let j: u32 = rng.gen_range(i..length);
        indices.swap(i as usize, j as usize);
    }
    indices.truncate(amount as usize);
    debug_assert_eq!(indices.len(), amount as usize);
    IndexVec::from(indices)
}

trait UInt: Copy + PartialOrd + Ord + PartialEq + Eq + SampleUniform
    + core::hash::Hash + core::ops::AddAssign {
    fn zero() -> Self;
    fn one() -> Self;
    fn as_usize(self) -> usize;
}
impl UInt for u32 {
    #[inline]
    fn zero() -> Self {
        0
    }

    #[inline]
    fn one() -> Self {
        1
    }

    #[inline]
    fn as_usize(self) -> usize {
        self as usize
    }
}
impl UInt for usize {
    #[inline]
    fn zero() -> Self {
        0
    }

    #[inline]
    fn one() -> Self {
        1
    }

    #[inline]
    fn as_usize(self) -> usize {
        self
    }
}

/// Randomly sample exactly `amount` indices from `0..length`, using rejection
/// sampling.
///
/// Since `amount <<< length` there is a low chance of a random sample in
/// `0..length` being a duplicate. We test for duplicates and resample where
/// necessary. The algorithm is `O(amount)` time and memory.
///
/// This function  is generic over X primarily so that results are value-stable
/// over 32-bit and 64-bit platforms.
fn sample_rejection<X: UInt, R>(rng: &mut R, length: X, amount: X) -> IndexVec
where
    R: Rng + ?Sized,
    IndexVec: From<Vec<X>>,
{
    debug_assert!(amount < length);
    #[cfg(feature = "std")]
    let mut cache = HashSet::with_capacity(amount.as_usize());
    #[cfg(not(feature = "std"))]
    let mut cache = BTreeSet::new();
    let distr = Uniform::new(X::zero(), length);
    let mut indices = Vec::with_capacity(amount.as_usize());
    for _ in 0..amount.as_usize() {
        let mut pos = distr.sample(rng);
        while !cache.insert(pos) {
            pos = distr.sample(rng);
        }
        indices.push(pos);
    }

    debug_assert_eq!(indices.len(), amount.as_usize());
    IndexVec::from(indices)
}

#[cfg(test)]
mod test {
    use super::*;

    #[test]
    #[cfg(feature = "serde1")]
    fn test_serialization_index_vec() {
        let some_index_vec = IndexVec::from(vec![254_usize, 234, 2, 1]);
        let de_some_index_vec: IndexVec = bincode::deserialize(&bincode::serialize(&some_index_vec).unwrap()).unwrap();
        match (some_index_vec, de_some_index_vec) {
            (IndexVec::U32(a), IndexVec::U32(b)) => {
                assert_eq!(a, b);
            },
            (IndexVec::USize(a), IndexVec::USize(b)) => {
                assert_eq!(a, b);
            },
            _ => {panic!("failed to seralize/deserialize `IndexVec`")}
        }
    }

    #[cfg(feature = "alloc")] use alloc::vec;

    #[test]
    fn test_sample_boundaries() {
        let mut r = crate::test::rng(404);

        assert_eq!(sample_inplace(&mut r, 0, 0).len(), 0);
        assert_eq!(sample_inplace(&mut r, 1, 0).len(), 0);
        assert_eq!(sample_inplace(&mut r, 1, 1).into_vec(), vec![0]);

        assert_eq!(sample_rejection(&mut r, 1u32, 0).len(), 0);

        assert_eq!(sample_floyd(&mut r, 0, 0).len(), 0);
        assert_eq!(sample_floyd(&mut r, 1, 0).len(), 0);
        assert_eq!(sample_floyd(&mut r, 1, 1).into_vec(), vec![0]);

        // These algorithms should be fast with big numbers. Test average.
        let sum: usize = sample_rejection(&mut r, 1 << 25, 10u32).into_iter().sum();
        assert!(1 << 25 < sum && sum < (1 << 25) * 25);

        let sum: usize = sample_floyd(&mut r, 1 << 25, 10).into_iter().sum();
        assert!(1 << 25 < sum && sum < (1 << 25) * 25);
    }

    #[test]
    #[cfg_attr(miri, ignore)] // Miri is too slow
    fn test_sample_alg() {
        let seed_rng = crate::test::rng;

        // We can't test which algorithm is used directly, but Floyd's alg
        // should produce different results from the others. (Also, `inplace`
        // and `cached` currently use different sizes thus produce different results.)

        // A small length and relatively large amount should use inplace
        let (length, amount): (usize, usize) = (100, 50);
        let v1 = sample(&mut seed_rng(420), length, amount);
        let v2 = sample_inplace(&mut seed_rng(420), length as u32, amount as u32);
        assert!(v1.iter().all(|e| e < length));
        assert_eq!(v1, v2);

        // Test Floyd's alg does produce different results
        let v3 = sample_floyd(&mut seed_rng(420), length as u32, amount as u32);
        assert!(v1 != v3);

        // A large length and small amount should use Floyd
        let (length, amount): (usize, usize) = (1 << 20, 50);
        let v1 = sample(&mut seed_rng(421), length, amount);
        let v2 = sample_floyd(&mut seed_rng(421), length as u32, amount as u32);
        assert!(v1.iter().all(|e| e < length));
        assert_eq!(v1, v2);

        // A large length and larger amount should use cache
        let (length, amount): (usize, usize) = (1 << 20, 600);
        let v1 = sample(&mut seed_rng(422), length, amount);
        let v2 = sample_rejection(&mut seed_rng(422), length as u32, amount as u32);
        assert!(v1.iter().all(|e| e < length));
        assert_eq!(v1, v2);
    }

    #[cfg(feature = "std")]
    #[test]
    fn test_sample_weighted() {
        let seed_rng = crate::test::rng;
        for &(amount, len) in &[(0, 10), (5, 10), (10, 10)] {
            let v = sample_weighted(&mut seed_rng(423), len, |i| i as f64, amount).unwrap();
            match v {
                IndexVec::U32(mut indices) => {
                    assert_eq!(indices.len(), amount);
                    indices.sort_unstable();
                    indices.dedup();
                    assert_eq!(indices.len(), amount);
                    for &i in &indices {
                        assert!((i as usize) < len);
                    }
                },
                IndexVec::USize(_) => panic!("expected `IndexVec::U32`"),
            }
        }
    }

    #[test]
    fn value_stability_sample() {
        let do_test = |length, amount, values: &[u32]| {
            let mut buf = [0u32; 8];
            let mut rng = crate::test::rng(410);

            let res = sample(&mut rng, length, amount);
            let len = res.len().min(buf.len());
            for (x, y) in res.into_iter().zip(buf.iter_mut()) {
                *y = x as u32;
            }
            assert_eq!(
                &buf[0..len],
                values,
                "failed sampling {}, {}",
                length,
                amount
            );
        };

        do_test(10, 6, &[8, 0, 3, 5, 9, 6]); // floyd
        do_test(25, 10, &[18, 15, 14, 9, 0, 13, 5, 24]); // floyd
        do_test(300, 8, &[30, 283, 150, 1, 73, 13, 285, 35]); // floyd
        do_test(300, 80, &[31, 289, 248, 154, 5, 78, 19, 286]); // inplace
        do_test(300, 180, &[31, 289, 248, 154, 5, 78, 19, 286]); // inplace

        do_test(1_000_000, 8, &[
            103717, 963485, 826422, 509101, 736394, 807035, 5327, 632573,
        ]); // floyd
        do_test(1_000_000, 180, &[
            103718, 963490, 826426, 509103, 736396, 807036, 5327, 632573,
        ]); // rejection
    }
}
