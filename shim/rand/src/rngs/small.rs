// Copyright 2018 Developers of the Rand project.
//
// Licensed under the Apache License, Version 2.0 <LICENSE-APACHE or
// https://www.apache.org/licenses/LICENSE-2.0> or the MIT license
// <LICENSE-MIT or https://opensource.org/licenses/MIT>, at your
// option. This file may not be copied, modified, or distributed
// except according to those terms.

//! A small fast RNG

use rand_core::{Error, RngCore, SeedableRng};

#[cfg(target_pointer_width = "64")]
type Rng = super::xoshiro256plusplus::Xoshiro256PlusPlus;
#[cfg(not(target_pointer_width = "64"))]
type Rng = super::xoshiro128plusplus::Xoshiro128PlusPlus;

/// A small-state, fast non-crypto PRNG
///
/// `SmallRng` may be a good choice when a PRNG with small state, cheap
/// initialization, good statistical quality and good performance are required.
/// Note that depending on the application, [`StdRng`] may be faster on many
/// modern platforms while providing higher-quality randomness. Furthermore,
/// `SmallRng` is **not** a good choice when:
/// - Security against prediction is important. Use [`StdRng`] instead.
/// - Seeds with many zeros are provided. In such cases, it takes `SmallRng`
///   about 10 samples to produce 0 and 1 bits with equal probability. Either
///   provide seeds with an approximately equal number of 0 and 1 (for example
///   by using [`SeedableRng::from_entropy`] or [`SeedableRng::seed_from_u64`]),
///   or use [`StdRng`] instead.
///
/// The algorithm is deterministic but should not be considered reproducible
/// due to dependence on platform and possible replacement in future
/// library versions. For a reproducible generator, use a named PRNG from an
/// external crate, e.g. [rand_xoshiro] or [rand_chacha].
/// Refer also to [The Book](https://rust-random.github.io/book/guide-rngs.html).
///
/// The PRNG algorithm in `SmallRng` is chosen to be efficient on the current
/// platform, without consideration for cryptography or security. The size of
/// its state is much smaller than [`StdRng`]. The current algorithm is
/// `Xoshiro256PlusPlus` on 64-bit platforms and `Xoshiro128PlusPlus` on 32-bit
/// platforms. Both are also implemented by the [rand_xoshiro] crate.
///
/// # Examples
///
/// Initializing `SmallRng` with a random seed can be done using [`SeedableRng::from_entropy`]:
///
/// ```
/// use rand::{Rng, SeedableRng};
/// use rand::rngs::SmallRng;
///
/// // Create small, cheap to initialize and fast RNG with a random seed.
/// // The randomness is supplied by the operating system.
/// let mut small_rng = SmallRng::from_entropy();
/// # let v: u32 = small_rng.gen();
/// ```
///
/// When initializing a lot of `SmallRng`'s, using [`thread_rng`] can be more
/// efficient:
///
/// ```
/// use rand::{SeedableRng, thread_rng};
/// use rand::rngs::SmallRng;
///
/// // Create a big, expensive to initialize and slower, but unpredictable RNG.
/// // This is cached and done only once per thread.
/// let mut thread_rng = thread_rng();
/// // Create small, cheap to initialize and fast RNGs with random seeds.
/// // One can generally assume this won't fail.
/// let rngs: Vec<SmallRng> = (0..10)
///     .map(|_| SmallRng::from_rng(&mut thread_rng).unwrap())
///     .collect();
/// ```
///
/// [`StdRng`]: crate::rngs::StdRng
/// [`thread_rng`]: crate::thread_rng
/// [rand_chacha]: https://crates.io/crates/rand_chacha
/// [rand_xoshiro]: https://crates.io/crates/rand_xoshiro
#[cfg_attr(docsrs, doc(cfg(feature = "small_rng")))]
#[derive(Clone, Debug, PartialEq, Eq)]
pub struct SmallRng(Rng);

impl RngCore for SmallRng {
    #[inline(always)]
    fn next_u32(&mut self) -> u32 {
        self.0.next_u32()
    }

    #[inline(always)]
    fn next_u64(&mut self) -> u64 {
        self.0.next_u64()
    }

    #[inline(always)]
    fn fill_bytes(&mut self, dest: &mut [u8]) {
        self.0.fill_bytes(dest);
    }

    #[inline(always)]
    fn try_fill_bytes(&mut self, dest: &mut [u8]) -> Result<(), Error> {
        self.0.try_fill_bytes(dest)
    }
}

impl SeedableRng for SmallRng {
    type Seed = <Rng as SeedableRng>::Seed;

    #[inline(always)]
    fn from_seed(seed: Self::Seed) -> Self {
        SmallRng(Rng::from_seed(seed))
    }

    #[inline(always)]
    fn from_rng<R: RngCore>(rng: R) -> Result<Self, Error> {
        Rng::from_rng(rng).map(SmallRng)
    }
}
