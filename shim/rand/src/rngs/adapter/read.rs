// Copyright 2018 Developers of the Rand project.
// Copyright 2013 The Rust Project Developers.
//
// Licensed under the Apache License, Version 2.0 <LICENSE-APACHE or
// https://www.apache.org/licenses/LICENSE-2.0> or the MIT license
// <LICENSE-MIT or https://opensource.org/licenses/MIT>, at your
// option. This file may not be copied, modified, or distributed
// except according to those terms.

//! A wrapper around any Read to treat it as an RNG.

#![allow(deprecated)]

use std::fmt;
use std::io::Read;

use rand_core::{impls, Error, RngCore};


/// An RNG that reads random bytes straight from any type supporting
/// [`std::io::Read`], for example files.
///
/// This will work best with an infinite reader, but that is not required.
///
/// This can be used with `/dev/urandom` on Unix but it is recommended to use
/// [`OsRng`] instead.
///
/// # Panics
///
/// `ReadRng` uses [`std::io::Read::read_exact`], which retries on interrupts.
/// All other errors from the underlying reader, including when it does not
/// have enough data, will only be reported through [`try_fill_bytes`].
/// The other [`RngCore`] methods will panic in case of an error.
///
/// [`OsRng`]: crate::rngs::OsRng
/// [`try_fill_bytes`]: RngCore::try_fill_bytes
#[derive(Debug)]
#[deprecated(since="0.8.4", note="removal due to lack of usage")]
pub struct ReadRng<R> {
    reader: R,
}

impl<R: Read> ReadRng<R> {
    /// Create a new `ReadRng` from a `Read`.
    pub fn new(r: R) -> ReadRng<R> {
        ReadRng { reader: r }
    }
}

impl<R: Read> RngCore for ReadRng<R> {
    fn next_u32(&mut self) -> u32 {
        impls::next_u32_via_fill(self)
    }

    fn next_u64(&mut self) -> u64 {
        impls::next_u64_via_fill(self)
    }

    fn fill_bytes(&mut self, dest: &mut [u8]) {
        self.try_fill_bytes(dest).unwrap_or_else(|err| {
            panic!(
                "reading random bytes from Read implementation failed; error: {}",
                err
            )
        });
    }

    fn try_fill_bytes(&mut self, dest: &mut [u8]) -> Result<(), Error> {
        if dest.is_empty() {
            return Ok(());
        }
        // Use `std::io::read_exact`, which retries on `ErrorKind::Interrupted`.
        self.reader
            .read_exact(dest)
            .map_err(|e| Error::new(ReadError(e)))
    }
}

/// `ReadRng` error type
#[derive(Debug)]
#[deprecated(since="0.8.4")]
pub struct ReadError(std::io::Error);

impl fmt::Display for ReadError {
    fn fmt(&self, f: &mut fmt::Formatter) -> fmt::Result {
        write!(f, "ReadError: {}", self.0)
    }
}

impl std::error::Error for ReadError {
    fn source(&self) -> Option<&(dyn std::error::Error + 'static)> {
        Some(&self.0)
    }
}


#[cfg(test)]
mod test {
    use std::println;

    use super::ReadRng;
    use crate::RngCore;

    #[test]
    fn test_reader_rng_u64() {
        // transmute from the target to avoid endianness concerns.
        #[rustfmt::skip]
        let v = [0u8, 0, 0, 0, 0, 0, 0, 1,
                 0,   4, 0, 0, 3, 0, 0, 2,
                 5,   0, 0, 0, 0, 0, 0, 0];
        let mut rng = ReadRng::new(&v[..]);

        assert_eq!(rng.next_u64(), 1 << 56);
        assert_eq!(rng.next_u64(), (2 << 56) + (3 << 32) + (4 << 8));
        assert_eq!(rng.next_u64(), 5);
    }

    #[test]
    fn test_reader_rng_u32() {
        let v = [0u8, 0, 0, 1, 0, 0, 2, 0, 3, 0, 0, 0];
        let mut rng = ReadRng::new(&v[..]);

        assert_eq!(rng.next_u32(), 1 << 24);
        assert_eq!(rng.next_u32(), 2 << 16);
        assert_eq!(rng.next_u32(), 3);
    }

    #[test]
    fn test_reader_rng_fill_bytes() {
        let v = [1u8, 2, 3, 4, 5, 6, 7, 8];
        let mut w = [0u8; 8];

        let mut rng = ReadRng::new(&v[..]);
        rng.fill_bytes(&mut w);

        assert!(v == w);
    }

    #[test]
    fn test_reader_rng_insufficient_bytes() {
        let v = [1u8, 2, 3, 4, 5, 6, 7, 8];
        let mut w = [0u8; 9];

        let mut rng = ReadRng::new(&v[..]);

        let result = rng.try_fill_bytes(&mut w);
        assert!(result.is_err());
        println!("Error: {}", result.unwrap_err());
    }
}
