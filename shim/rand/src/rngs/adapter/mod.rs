// Copyright 2018 Developers of the Rand project.
//
// Licensed under the Apache License, Version 2.0 <LICENSE-APACHE or
// https://www.apache.org/licenses/LICENSE-2.0> or the MIT license
// <LICENSE-MIT or https://opensource.org/licenses/MIT>, at your
// option. This file may not be copied, modified, or distributed
// except according to those terms.

//! Wrappers / adapters forming RNGs

mod read;
mod reseeding;

#[allow(deprecated)]
pub use self::read::{ReadError, ReadRng};
pub use self::reseeding::ReseedingRng;
