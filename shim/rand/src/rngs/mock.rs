// Copyright 2018 Developers of the Rand project.
//
// Licensed under the Apache License, Version 2.0 <LICENSE-APACHE or
// https://www.apache.org/licenses/LICENSE-2.0> or the MIT license
// <LICENSE-MIT or https://opensource.org/licenses/MIT>, at your
// option. This file may not be copied, modified, or distributed
// except according to those terms.

//! Mock random number generator

use rand_core::{impls, Error, RngCore};

#[cfg(feature = "serde1")]
use serde::{Serialize, Deserialize};

/// A simple implementation of `RngCore` for testing purposes.
///
/// This generates an arithmetic sequence (i.e. adds a constant each step)
/// over a `u64` number, using wrapping arithmetic. If the increment is 0
/// the generator yields a constant.
///
/// ```
/// use rand::Rng;
/// use rand::rngs::mock::StepRng;
///
/// let mut my_rng = StepRng::new(2, 1);
/// let sample: [u64; 3] = my_rng.gen();
/// assert_eq!(sample, [2, 3, 4]);
/// ```
#[derive(Debug, Clone, PartialEq, Eq)]
#[cfg_attr(feature = "serde1", derive(Serialize, Deserialize))]
pub struct StepRng {
    v: u64,
    a: u64,
}

impl StepRng {
    /// Create a `StepRng`, yielding an arithmetic sequence starting with
    /// `initial` and incremented by `increment` each time.
    pub fn new(initial: u64, increment: u64) -> Self {
        StepRng {
            v: initial,
            a: increment,
        }
    }
}

impl RngCore for StepRng {
    #[inline]
    fn next_u32(&mut self) -> u32 {
        self.next_u64() as u32
    }

    #[inline]
    fn next_u64(&mut self) -> u64 {
        let result = self.v;
        self.v = self.v.wrapping_add(self.a);
        result
    }

    #[inline]
    fn fill_bytes(&mut self, dest: &mut [u8]) {
        impls::fill_bytes_via_next(self, dest);
    }

    #[inline]
    fn try_fill_bytes(&mut self, dest: &mut [u8]) -> Result<(), Error> {
        self.fill_bytes(dest);
        Ok(())
    }
}

#[cfg(test)]
mod tests {
    #[test]
    #[cfg(feature = "serde1")]
    fn test_serialization_step_rng() {
        use super::StepRng;

        let some_rng = StepRng::new(42, 7);
        let de_some_rng: StepRng =
            bincode::deserialize(&bincode::serialize(&some_rng).unwrap()).unwrap();
        assert_eq!(some_rng.v, de_some_rng.v);
        assert_eq!(some_rng.a, de_some_rng.a);

    }
}
