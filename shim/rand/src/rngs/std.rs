// Copyright 2018 Developers of the Rand project.
//
// Licensed under the Apache License, Version 2.0 <LICENSE-APACHE or
// https://www.apache.org/licenses/LICENSE-2.0> or the MIT license
// <LICENSE-MIT or https://opensource.org/licenses/MIT>, at your
// option. This file may not be copied, modified, or distributed
// except according to those terms.

//! The standard RNG

use crate::{CryptoRng, Error, RngCore, SeedableRng};

pub(crate) use rand_chacha::ChaCha12Core as Core;

use rand_chacha::ChaCha12Rng as Rng;

/// The standard RNG. The PRNG algorithm in `StdRng` is chosen to be efficient
/// on the current platform, to be statistically strong and unpredictable
/// (meaning a cryptographically secure PRNG).
///
/// The current algorithm used is the ChaCha block cipher with 12 rounds. Please
/// see this relevant [rand issue] for the discussion. This may change as new 
/// evidence of cipher security and performance becomes available.
///
/// The algorithm is deterministic but should not be considered reproducible
/// due to dependence on configuration and possible replacement in future
/// library versions. For a secure reproducible generator, we recommend use of
/// the [rand_chacha] crate directly.
///
/// [rand_chacha]: https://crates.io/crates/rand_chacha
/// [rand issue]: https://github.com/rust-random/rand/issues/932
#[cfg_attr(docsrs, doc(cfg(feature = "std_rng")))]
#[derive(Clone, Debug, PartialEq, Eq)]
pub struct StdRng(Rng, Option<crate::sim::StdFault>);

impl RngCore for StdRng {
    #[inline(always)]
    fn next_u32(&mut self) -> u32 {
        let v = self.0.next_u32();
        if let Some(f) = self.1.as_mut() {
            return f.map32(v);
        }
        v
    }

    #[inline(always)]
    fn next_u64(&mut self) -> u64 {
        let v = self.0.next_u64();
        if let Some(f) = self.1.as_mut() {
            return f.map64(v);
        }
        v
    }

    #[inline(always)]
    fn fill_bytes(&mut self, dest: &mut [u8]) {
        self.0.fill_bytes(dest);
    }

    #[inline(always)]
    fn try_fill_bytes(&mut self, dest: &mut [u8]) -> Result<(), Error> {
        self.0.try_fill_bytes(dest)
    }
}

impl SeedableRng for StdRng {
    type Seed = <Rng as SeedableRng>::Seed;

    #[inline(always)]
    fn from_seed(seed: Self::Seed) -> Self {
        // /verif seam: a fault plan installed on this thread is captured here (None otherwise)
        let fault = crate::sim::std_fault_for(&seed);
        StdRng(Rng::from_seed(seed), fault)
    }

    #[inline(always)]
    fn from_rng<R: RngCore>(rng: R) -> Result<Self, Error> {
        // /verif seam: seeded from another generator, no seed of its own to key a plan on: never faulted
        Rng::from_rng(rng).map(|r| StdRng(r, None))
    }
}

impl CryptoRng for StdRng {}


#[cfg(test)]
mod test {
    use crate::rngs::StdRng;
    use crate::{RngCore, SeedableRng};

    #[test]
    fn test_stdrng_construction() {
        // Test value-stability of StdRng. This is expected to break any time
        // the algorithm is changed.
        #[rustfmt::skip]
        let seed = [1,0,0,0, 23,0,0,0, 200,1,0,0, 210,30,0,0,
                    0,0,0,0, 0,0,0,0, 0,0,0,0, 0,0,0,0];

        let target = [10719222850664546238, 14064965282130556830];

        let mut rng0 = StdRng::from_seed(seed);
        let x0 = rng0.next_u64();

        let mut rng1 = StdRng::from_rng(rng0).unwrap();
        let x1 = rng1.next_u64();

        assert_eq!([x0, x1], target);
    }
}
