// Copyright 2018 Developers of the Rand project.
//
// Licensed under the Apache License, Version 2.0 <LICENSE-APACHE or
// https://www.apache.org/licenses/LICENSE-2.0> or the MIT license
// <LICENSE-MIT or https://opensource.org/licenses/MIT>, at your
// option. This file may not be copied, modified, or distributed
// except according to those terms.

#[cfg(feature="serde1")] use serde::{Serialize, Deserialize};
use rand_core::impls::{next_u64_via_u32, fill_bytes_via_next};
use rand_core::le::read_u32_into;
use rand_core::{SeedableRng, RngCore, Error};

/// A xoshiro128++ random number generator.
///
/// The xoshiro128++ algorithm is not suitable for cryptographic purposes, but
/// is very fast and has excellent statistical properties.
///
/// The algorithm used here is translated from [the `xoshiro128plusplus.c`
/// reference source code](http://xoshiro.di.unimi.it/xoshiro128plusplus.c) by
/// David Blackman and Sebastiano Vigna.
#[derive(Debug, Clone, PartialEq, Eq)]
#[cfg_attr(feature="serde1", derive(Serialize, Deserialize))]
pub struct Xoshiro128PlusPlus {
    s: [u32; 4],
}

impl SeedableRng for Xoshiro128PlusPlus {
    type Seed = [u8; 16];

    /// Create a new `Xoshiro128PlusPlus`.  If `seed` is entirely 0, it will be
    /// mapped to a different seed.
    #[inline]
    fn from_seed(seed: [u8; 16]) -> Xoshiro128PlusPlus {
        if seed.iter().all(|&x| x == 0) {
            return Self::seed_from_u64(0);
        }
        let mut state = [0; 4];
        read_u32_into(&seed, &mut state);
        Xoshiro128PlusPlus { s: state }
    }

    /// Create a new `Xoshiro128PlusPlus` from a `u64` seed.
    ///
    /// This uses the SplitMix64 generator internally.
    fn seed_from_u64(mut state: u64) -> Self {
        const PHI: u64 = 0x9e3779b97f4a7c15;
        let mut seed = Self::Seed::default();
        for chunk in seed.as_mut().chunks_mut(8) {
            state = state.wrapping_add(PHI);
            let mut z = state;
            z = (z ^ (z >> 30)).wrapping_mul(0xbf58476d1ce4e5b9);
            z = (z ^ (z >> 27)).wrapping_mul(0x94d049bb133111eb);
            z = z ^ (z >> 31);
            chunk.copy_from_slice(&z.to_le_bytes());
        }
        Self::from_seed(seed)
    }
}

impl RngCore for Xoshiro128PlusPlus {
    #[inline]
    fn next_u32(&mut self) -> u32 {
        let result_starstar = self.s[0]
            .wrapping_add(self.s[3])
            .rotate_left(7)
            .wrapping_add(self.s[0]);

        let t = self.s[1] << 9;

        self.s[2] ^= self.s[0];
        self.s[3] ^= self.s[1];
        self.s[1] ^= self.s[2];
        self.s[0] ^= self.s[3];

        self.s[2] ^= t;

        self.s[3] = self.s[3].rotate_left(11);

        result_starstar
    }

    #[inline]
    fn next_u64(&mut self) -> u64 {
        next_u64_via_u32(self)
    }

    #[inline]
    fn fill_bytes(&mut self, dest: &mut [u8]) {
        fill_bytes_via_next(self, dest);
    }

    #[inline]
    fn try_fill_bytes(&mut self, dest: &mut [u8]) -> Result<(), Error> {
        self.fill_bytes(dest);
        Ok(())
    }
}

#[cfg(test)]
mod tests {
    use super::*;

    #[test]
    fn reference() {
        let mut rng = Xoshiro128PlusPlus::from_seed(
            [1, 0, 0, 0, 2, 0, 0, 0, 3, 0, 0, 0, 4, 0, 0, 0]);
        // These values were produced with the reference implementation:
        // http://xoshiro.di.unimi.it/xoshiro128plusplus.c
        let expected = [
            641, 1573767, 3222811527, 3517856514, 836907274, 4247214768,
            3867114732, 1355841295, 495546011, 621204420,
        ];
        for &e in &expected {
            assert_eq!(rng.next_u32(), e);
        }
    }
}
