// Copyright 2018 Developers of the Rand project.
//
// Licensed under the Apache License, Version 2.0 <LICENSE-APACHE or
// https://www.apache.org/licenses/LICENSE-2.0> or the MIT license
// <LICENSE-MIT or https://opensource.org/licenses/MIT>, at your
// option. This file may not be copied, modified, or distributed
// except according to those terms.

//! Random number generators and adapters
//!
//! ## Background: Random number generators (RNGs)
//!
//! Computers cannot produce random numbers from nowhere. We classify
//! random number generators as follows:
//!
//! -   "True" random number generators (TRNGs) use hard-to-predict data sources
//!     (e.g. the high-resolution parts of event timings and sensor jitter) to
//!     harvest random bit-sequences, apply algorithms to remove bias and
//!     estimate available entropy, then combine these bits into a byte-sequence
//!     or an entropy pool. This job is usually done by the operating system or
//!     a hardware generator (HRNG).
//! -   "Pseudo"-random number generators (PRNGs) use algorithms to transform a
//!     seed into a sequence of pseudo-random numbers. These generators can be
//!     fast and produce well-distributed unpredictable random numbers (or not).
//!     They are usually deterministic: given algorithm and seed, the output
//!     sequence can be reproduced. They have finite period and eventually loop;
//!     with many algorithms this period is fixed and can be proven sufficiently
//!     long, while others are chaotic and the period depends on the seed.
//! -   "Cryptographically secure" pseudo-random number generators (CSPRNGs)
//!     are the sub-set of PRNGs which are secure. Security of the generator
//!     relies both on hiding the internal state and using a strong algorithm.
//!
//! ## Traits and functionality
//!
//! All RNGs implement the [`RngCore`] trait, as a consequence of which the
//! [`Rng`] extension trait is automatically implemented. Secure RNGs may
//! additionally implement the [`CryptoRng`] trait.
//!
//! All PRNGs require a seed to produce their random number sequence. The
//! [`SeedableRng`] trait provides three ways of constructing PRNGs:
//!
//! -   `from_seed` accepts a type specific to the PRNG
//! -   `from_rng` allows a PRNG to be seeded from any other RNG
//! -   `seed_from_u64` allows any PRNG to be seeded from a `u64` insecurely
//! -   `from_entropy` securely seeds a PRNG from fresh entropy
//!
//! Use the [`rand_core`] crate when implementing your own RNGs.
//!
//! ## Our generators
//!
//! This crate provides several random number generators:
//!
//! -   [`OsRng`] is an interface to the operating system's random number
//!     source. Typically the operating system uses a CSPRNG with entropy
//!     provided by a TRNG and some type of on-going re-seeding.
//! -   [`ThreadRng`], provided by the [`thread_rng`] function, is a handle to a
//!     thread-local CSPRNG with periodic seeding from [`OsRng`]. Because this
//!     is local, it is typically much faster than [`OsRng`]. It should be
//!     secure, though the paranoid may prefer [`OsRng`].
//! -   [`StdRng`] is a CSPRNG chosen for good performance and trust of security
//!     (based on reviews, maturity and usage). The current algorithm is ChaCha12,
//!     which is well established and rigorously analysed.
//!     [`StdRng`] provides the algorithm used by [`ThreadRng`] but without
//!     periodic reseeding.
//! -   [`SmallRng`] is an **insecure** PRNG designed to be fast, simple, require
//!     little memory, and have good output quality.
//!
//! The algorithms selected for [`StdRng`] and [`SmallRng`] may change in any
//! release and may be platform-dependent, therefore they should be considered
//! **not reproducible**.
//!
//! ## Additional generators
//!
//! **TRNGs**: The [`rdrand`] crate provides an interface to the RDRAND and
//! RDSEED instructions available in modern Intel and AMD CPUs.
//! The [`rand_jitter`] crate provides a user-space implementation of
//! entropy harvesting from CPU timer jitter, but is very slow and has
//! [security issues](https://github.com/rust-random/rand/issues/699).
//!
//! **PRNGs**: Several companion crates are available, providing individual or
//! families of PRNG algorithms. These provide the implementations behind
//! [`StdRng`] and [`SmallRng`] but can also be used directly, indeed *should*
//! be used directly when **reproducibility** matters.
//! Some suggestions are: [`rand_chacha`], [`rand_pcg`], [`rand_xoshiro`].
//! A full list can be found by searching for crates with the [`rng` tag].
//!
//! [`Rng`]: crate::Rng
//! [`RngCore`]: crate::RngCore
//! [`CryptoRng`]: crate::CryptoRng
//! [`SeedableRng`]: crate::SeedableRng
//! [`thread_rng`]: crate::thread_rng
//! [`rdrand`]: https://crates.io/crates/rdrand
//! [`rand_jitter`]: https://crates.io/crates/rand_jitter
//! [`rand_chacha`]: https://crates.io/crates/rand_chacha
//! [`rand_pcg`]: https://crates.io/crates/rand_pcg
//! [`rand_xoshiro`]: https://crates.io/crates/rand_xoshiro
//! [`rng` tag]: https://crates.io/keywords/rng

#[cfg_attr(docsrs, doc(cfg(feature = "std")))]
#[cfg(feature = "std")] pub mod adapter;

pub mod mock; // Public so we don't export `StepRng` directly, making it a bit
              // more clear it is intended for testing.

#[cfg(all(feature = "small_rng", target_pointer_width = "64"))]
mod xoshiro256plusplus;
#[cfg(all(feature = "small_rng", not(target_pointer_width = "64")))]
mod xoshiro128plusplus;
#[cfg(feature = "small_rng")] mod small;

#[cfg(feature = "std_rng")] mod std;
#[cfg(all(feature = "std", feature = "std_rng"))] pub(crate) mod thread;

#[cfg(feature = "small_rng")] pub use self::small::SmallRng;
#[cfg(feature = "std_rng")] pub use self::std::StdRng;
#[cfg(all(feature = "std", feature = "std_rng"))] pub use self::thread::ThreadRng;

#[cfg_attr(docsrs, doc(cfg(feature = "getrandom")))]
#[cfg(feature = "getrandom")] pub use rand_core::OsRng;
