// Copyright 2018 Developers of the Rand project.
// Copyright 2013-2017 The Rust Project Developers.
//
// Licensed under the Apache License, Version 2.0 <LICENSE-APACHE or
// https://www.apache.org/licenses/LICENSE-2.0> or the MIT license
// <LICENSE-MIT or https://opensource.org/licenses/MIT>, at your
// option. This file may not be copied, modified, or distributed
// except according to those terms.

//! [`Rng`] trait

use rand_core::{Error, RngCore};
use crate::distributions::uniform::{SampleRange, SampleUniform};
use crate::distributions::{self, Distribution, Standard};
use core::num::Wrapping;
use core::{mem, slice};

/// An automatically-implemented extension trait on [`RngCore`] providing high-level
/// generic methods for sampling values and other convenience methods.
///
/// This is the primary trait to use when generating random values.
///
/// # Generic usage
///
/// The basic pattern is `fn foo<R: Rng + ?Sized>(rng: &mut R)`. Some
/// things are worth noting here:
///
/// - Since `Rng: RngCore` and every `RngCore` implements `Rng`, it makes no
///   difference whether we use `R: Rng` or `R: RngCore`.
/// - The `+ ?Sized` un-bounding allows functions to be called directly on
///   type-erased references; i.e. `foo(r)` where `r: &mut dyn RngCore`. Without
///   this it would be necessary to write `foo(&mut r)`.
///
/// An alternative pattern is possible: `fn foo<R: Rng>(rng: R)`. This has some
/// trade-offs. It allows the argument to be consumed directly without a `&mut`
/// (which is how `from_rng(thread_rng())` works); also it still works directly
/// on references (including type-erased references). Unfortunately within the
/// function `foo` it is not known whether `rng` is a reference type or not,
/// hence many uses of `rng` require an extra reference, either explicitly
/// (`distr.sample(&mut rng)`) or implicitly (`rng.gen()`); one may hope the
/// optimiser can remove redundant references later.
///
/// Example:
///
/// ```
/// # use rand::thread_rng;
/// use rand::Rng;
///
/// fn foo<R: Rng + ?Sized>(rng: &mut R) -> f32 {
///     rng.gen()
/// }
///
/// # let v = foo(&mut thread_rng());
/// ```
pub trait Rng: RngCore {
    /// Return a random value supporting the [`Standard`] distribution.
    ///
    /// # Example
    ///
    /// ```
    /// use rand::{thread_rng, Rng};
    ///
    /// let mut rng = thread_rng();
    /// let x: u32 = rng.gen();
    /// println!("{}", x);
    /// println!("{:?}", rng.gen::<(f64, bool)>());
    /// ```
    ///
    /// # Arrays and tuples
    ///
    /// The `rng.gen()` method is able to generate arrays (up to 32 elements)
    /// and tuples (up to 12 elements), so long as all element types can be
    /// generated.
    /// When using `rustc` ≥ 1.51, enable the `min_const_gen` feature to support
    /// arrays larger than 32 elements.
    ///
    /// For arrays of integers, especially for those with small element types
    /// (< 64 bit), it will likely be faster to instead use [`Rng::fill`].
    ///
    /// ```
    /// use rand::{thread_rng, Rng};
    ///
    /// let mut rng = thread_rng();
    /// let tuple: (u8, i32, char) = rng.gen(); // arbitrary tuple support
    ///
    /// let arr1: [f32; 32] = rng.gen();        // array construction
    /// let mut arr2 = [0u8; 128];
    /// rng.fill(&mut arr2);                    // array fill
    /// ```
    ///
    /// [`Standard`]: distributions::Standard
    #[inline]
    fn gen<T>(&mut self) -> T
    where Standard: Distribution<T> {
        Standard.sample(self)
    }

    /// Generate a random value in the given range.
    ///
    /// This function is optimised for the case that only a single sample is
    /// made from the given range. See also the [`Uniform`] distribution
    /// type which may be faster if sampling from the same range repeatedly.
    ///
    /// Only `gen_range(low..high)` and `gen_range(low..=high)` are supported.
    ///
    /// # Panics
    ///
    /// Panics if the range is empty.
    ///
    /// # Example
    ///
    /// ```
    /// use rand::{thread_rng, Rng};
    ///
    /// let mut rng = thread_rng();
    ///
    /// // Exclusive range
    /// let n: u32 = rng.gen_range(0..10);
    /// println!("{}", n);
    /// let m: f64 = rng.gen_range(-40.0..1.3e5);
    /// println!("{}", m);
    ///
    /// // Inclusive range
    /// let n: u32 = rng.gen_range(0..=10);
    /// println!("{}", n);
    /// ```
    ///
    /// [`Uniform`]: distributions::uniform::Uniform
    fn gen_range<T, R>(&mut self, range: R) -> T
    where
        T: SampleUniform,
        R: SampleRange<T>
    {
        assert!(!range.is_empty(), "cannot sample empty range");
        range.sample_single(self)
    }

    /// Sample a new value, using the given distribution.
    ///
    /// ### Example
    ///
    /// ```
    /// use rand::{thread_rng, Rng};
    /// use rand::distributions::Uniform;
    ///
    /// let mut rng = thread_rng();
    /// let x = rng.sample(Uniform::new(10u32, 15));
    /// // Type annotation requires two types, the type and distribution; the
    /// // distribution can be inferred.
    /// let y = rng.sample::<u16, _>(Uniform::new(10, 15));
    /// ```
    fn sample<T, D: Distribution<T>>(&mut self, distr: D) -> T {
        distr.sample(self)
    }

    /// Create an iterator that generates values using the given distribution.
    ///
    /// Note that this function takes its arguments by value. This works since
    /// `(&mut R): Rng where R: Rng` and
    /// `(&D): Distribution where D: Distribution`,
    /// however borrowing is not automatic hence `rng.sample_iter(...)` may
    /// need to be replaced with `(&mut rng).sample_iter(...)`.
    ///
    /// # Example
    ///
    /// ```
    /// use rand::{thread_rng, Rng};
    /// use rand::distributions::{Alphanumeric, Uniform, Standard};
    ///
    /// let mut rng = thread_rng();
    ///
    /// // Vec of 16 x f32:
    /// let v: Vec<f32> = (&mut rng).sample_iter(Standard).take(16).collect();
    ///
    /// // String:
    /// let s: String = (&mut rng).sample_iter(Alphanumeric)
    ///     .take(7)
    ///     .map(char::from)
    ///     .collect();
    ///
    /// // Combined values
    /// println!("{:?}", (&mut rng).sample_iter(Standard).take(5)
    ///                              .collect::<Vec<(f64, bool)>>());
    ///
    /// // Dice-rolling:
    /// let die_range = Uniform::new_inclusive(1, 6);
    /// let mut roll_die = (&mut rng).sample_iter(die_range);
    /// while roll_die.next().unwrap() != 6 {
    ///     println!("Not a 6; rolling again!");
    /// }
    /// ```
    fn sample_iter<T, D>(self, distr: D) -> distributions::DistIter<D, Self, T>
    where
        D: Distribution<T>,
        Self: Sized,
    {
        distr.sample_iter(self)
    }

    /// Fill any type implementing [`Fill`] with random data
    ///
    /// The distribution is expected to be uniform with portable results, but
    /// this cannot be guaranteed for third-party implementations.
    ///
    /// This is identical to [`try_fill`] except that it panics on error.
    ///
    /// # Example
    ///
    /// ```
    /// use rand::{thread_rng, Rng};
    ///
    /// let mut arr = [0i8; 20];
    /// thread_rng().fill(&mut arr[..]);
    /// ```
    ///
    /// [`fill_bytes`]: RngCore::fill_bytes
    /// [`try_fill`]: Rng::try_fill
    fn fill<T: Fill + ?Sized>(&mut self, dest: &mut T) {
        dest.try_fill(self).unwrap_or_else(|_| panic!("Rng::fill failed"))
    }

    /// Fill any type implementing [`Fill`] with random data
    ///
    /// The distribution is expected to be uniform with portable results, but
    /// this cannot be guaranteed for third-party implementations.
    ///
    /// This is identical to [`fill`] except that it forwards errors.
    ///
    /// # Example
    ///
    /// ```
    /// # use rand::Error;
    /// use rand::{thread_rng, Rng};
    ///
    /// # fn try_inner() -> Result<(), Error> {
    /// let mut arr = [0u64; 4];
    /// thread_rng().try_fill(&mut arr[..])?;
    /// # Ok(())
    /// # }
    ///
    /// # try_inner().unwrap()
    /// ```
    ///
    /// [`try_fill_bytes`]: RngCore::try_fill_bytes
    /// [`fill`]: Rng::fill
    fn try_fill<T: Fill + ?Sized>(&mut self, dest: &mut T) -> Result<(), Error> {
        dest.try_fill(self)
    }

    /// Return a bool with a probability `p` of being true.
    ///
    /// See also the [`Bernoulli`] distribution, which may be faster if
    /// sampling from the same probability repeatedly.
    ///
    /// # Example
    ///
    /// ```
    /// use rand::{thread_rng, Rng};
    ///
    /// let mut rng = thread_rng();
    /// println!("{}", rng.gen_bool(1.0 / 3.0));
    /// ```
    ///
    /// # Panics
    ///
    /// If `p < 0` or `p > 1`.
    ///
    /// [`Bernoulli`]: distributions::Bernoulli
    #[inline]
    fn gen_bool(&mut self, p: f64) -> bool {
        let d = distributions::Bernoulli::new(p).unwrap();
        self.sample(d)
    }

    /// Return a bool with a probability of `numerator/denominator` of being
    /// true. I.e. `gen_ratio(2, 3)` has chance of 2 in 3, or about 67%, of
    /// returning true. If `numerator == denominator`, then the returned value
    /// is guaranteed to be `true`. If `numerator == 0`, then the returned
    /// value is guaranteed to be `false`.
    ///
    /// See also the [`Bernoulli`] distribution, which may be faster if
    /// sampling from the same `numerator` and `denominator` repeatedly.
    ///
    /// # Panics
    ///
    /// If `denominator == 0` or `numerator > denominator`.
    ///
    /// # Example
    ///
    /// ```
    /// use rand::{thread_rng, Rng};
    ///
    /// let mut rng = thread_rng();
    /// println!("{}", rng.gen_ratio(2, 3));
    /// ```
    ///
    /// [`Bernoulli`]: distributions::Bernoulli
    #[inline]
    fn gen_ratio(&mut self, numerator: u32, denominator: u32) -> bool {
        let d = distributions::Bernoulli::from_ratio(numerator, denominator).unwrap();
        self.sample(d)
    }
}

impl<R: RngCore + ?Sized> Rng for R {}

/// Types which may be filled with random data
///
/// This trait allows arrays to be efficiently filled with random data.
///
/// Implementations are expected to be portable across machines unless
/// clearly documented otherwise (see the
/// [Chapter on Portability](https://rust-random.github.io/book/portability.html)).
pub trait Fill {
    /// Fill self with random data
    fn try_fill<R: Rng + ?Sized>(&mut self, rng: &mut R) -> Result<(), Error>;
}

macro_rules! impl_fill_each {
    () => {};
    ($t:ty) => {
        impl Fill for [$t] {
            fn try_fill<R: Rng + ?Sized>(&mut self, rng: &mut R) -> Result<(), Error> {
                for elt in self.iter_mut() {
                    *elt = rng.gen();
                }
                Ok(())
            }
        }
    };
    ($t:ty, $($tt:ty,)*) => {
        impl_fill_each!($t);
        impl_fill_each!($($tt,)*);
    };
}

impl_fill_each!(bool, char, f32, f64,);

impl Fill for [u8] {
    fn try_fill<R: Rng + ?Sized>(&mut self, rng: &mut R) -> Result<(), Error> {
        rng.try_fill_bytes(self)
    }
}

macro_rules! impl_fill {
    () => {};
    ($t:ty) => {
        impl Fill for [$t] {
            #[inline(never)] // in micro benchmarks, this improves performance
            fn try_fill<R: Rng + ?Sized>(&mut self, rng: &mut R) -> Result<(), Error> {
                if self.len() > 0 {
                    rng.try_fill_bytes(unsafe {
                        slice::from_raw_parts_mut(self.as_mut_ptr()
                            as *mut u8,
                            self.len() * mem::size_of::<$t>()
                        )
                    })?;
                    for x in self {
                        *x = x.to_le();
                    }
                }
                Ok(())
            }
        }

        impl Fill for [Wrapping<$t>] {
            #[inline(never)]
            fn try_fill<R: Rng + ?Sized>(&mut self, rng: &mut R) -> Result<(), Error> {
                if self.len() > 0 {
                    rng.try_fill_bytes(unsafe {
                        slice::from_raw_parts_mut(self.as_mut_ptr()
                            as *mut u8,
                            self.len() * mem::size_of::<$t>()
                        )
                    })?;
                    for x in self {
                    *x = Wrapping(x.0.to_le());
                    }
                }
                Ok(())
            }
        }
    };
    ($t:ty, $($tt:ty,)*) => {
        impl_fill!($t);
        // TODO: this could replace above impl once Rust #32463 is fixed
        // impl_fill!(Wrapping<$t>);
        impl_fill!($($tt,)*);
    }
}

impl_fill!(u16, u32, u64, usize, u128,);
impl_fill!(i8, i16, i32, i64, isize, i128,);

#[cfg_attr(docsrs, doc(cfg(feature = "min_const_gen")))]
#[cfg(feature = "min_const_gen")]
impl<T, const N: usize> Fill for [T; N]
where [T]: Fill
{
    fn try_fill<R: Rng + ?Sized>(&mut self, rng: &mut R) -> Result<(), Error> {
        self[..].try_fill(rng)
    }
}

#[cfg(not(feature = "min_const_gen"))]
macro_rules! impl_fill_arrays {
    ($n:expr,) => {};
    ($n:expr, $N:ident) => {
        impl<T> Fill for [T; $n] where [T]: Fill {
            fn try_fill<R: Rng + ?Sized>(&mut self, rng: &mut R) -> Result<(), Error> {
                self[..].try_fill(rng)
            }
        }
    };
    ($n:expr, $N:ident, $($NN:ident,)*) => {
        impl_fill_arrays!($n, $N);
        impl_fill_arrays!($n - 1, $($NN,)*);
    };
    (!div $n:expr,) => {};
    (!div $n:expr, $N:ident, $($NN:ident,)*) => {
        impl_fill_arrays!($n, $N);
        impl_fill_arrays!(!div $n / 2, $($NN,)*);
    };
}
#[cfg(not(feature = "min_const_gen"))]
#[rustfmt::skip]
impl_fill_arrays!(32, N,N,N,N,N,N,N,N,N,N,N,N,N,N,N,N,N,N,N,N,N,N,N,N,N,N,N,N,N,N,N,N,N,);
#[cfg(not(feature = "min_const_gen"))]
impl_fill_arrays!(!div 4096, N,N,N,N,N,N,N,);

#[cfg(test)]
mod test {
    use super::*;
    use crate::test::rng;
    use crate::rngs::mock::StepRng;
    #[cfg(feature = "alloc")] use alloc::boxed::Box;

    #[test]
    fn test_fill_bytes_default() {
        let mut r = StepRng::new(0x11_22_33_44_55_66_77_88, 0);

        // check every remainder mod 8, both in small and big vectors.
        let lengths = [0, 1, 2, 3, 4, 5, 6, 7, 80, 81, 82, 83, 84, 85, 86, 87];
        for &n in lengths.iter() {
            let mut buffer = [0u8; 87];
            let v = &mut buffer[0..n];
            r.fill_bytes(v);

            // use this to get nicer error messages.
            for (i, &byte) in v.iter().enumerate() {
                if byte == 0 {
                    panic!("byte {} of {} is zero", i, n)
                }
            }
        }
    }

    #[test]
    fn test_fill() {
        let x = 9041086907909331047; // a random u64
        let mut rng = StepRng::new(x, 0);

        // Convert to byte sequence and back to u64; byte-swap twice if BE.
        let mut array = [0u64; 2];
        rng.fill(&mut array[..]);
        assert_eq!(array, [x, x]);
        assert_eq!(rng.next_u64(), x);

        // Convert to bytes then u32 in LE order
        let mut array = [0u32; 2];
        rng.fill(&mut array[..]);
        assert_eq!(array, [x as u32, (x >> 32) as u32]);
        assert_eq!(rng.next_u32(), x as u32);

        // Check equivalence using wrapped arrays
        let mut warray = [Wrapping(0u32); 2];
        rng.fill(&mut warray[..]);
        assert_eq!(array[0], warray[0].0);
        assert_eq!(array[1], warray[1].0);

        // Check equivalence for generated floats
        let mut array = [0f32; 2];
        rng.fill(&mut array);
        let gen: [f32; 2] = rng.gen();
        assert_eq!(array, gen);
    }

    #[test]
    fn test_fill_empty() {
        let mut array = [0u32; 0];
        let mut rng = StepRng::new(0, 1);
        rng.fill(&mut array);
        rng.fill(&mut array[..]);
    }

    #[test]
    fn test_gen_range_int() {
        let mut r = rng(101);
        for _ in 0..1000 {
            let a = r.gen_range(-4711..17);
            assert!((-4711..17).contains(&a));
            let a: i8 = r.gen_range(-3..42);
            assert!((-3..42).contains(&a));
            let a: u16 = r.gen_range(10..99);
            assert!((10..99).contains(&a));
            let a: i32 = r.gen_range(-100..2000);
            assert!((-100..2000).contains(&a));
            let a: u32 = r.gen_range(12..=24);
            assert!((12..=24).contains(&a));

            assert_eq!(r.gen_range(0u32..1), 0u32);
            assert_eq!(r.gen_range(-12i64..-11), -12i64);
            assert_eq!(r.gen_range(3_000_000..3_000_001), 3_000_000);
        }
    }

    #[test]
    fn test_gen_range_float() {
        let mut r = rng(101);
        for _ in 0..1000 {
            let a = r.gen_range(-4.5..1.7);
            assert!((-4.5..1.7).contains(&a));
            let a = r.gen_range(-1.1..=-0.3);
            assert!((-1.1..=-0.3).contains(&a));

            assert_eq!(r.gen_range(0.0f32..=0.0), 0.);
            assert_eq!(r.gen_range(-11.0..=-11.0), -11.);
            assert_eq!(r.gen_range(3_000_000.0..=3_000_000.0), 3_000_000.);
        }
    }

    #[test]
    #[should_panic]
    fn test_gen_range_panic_int() {
        #![allow(clippy::reversed_empty_ranges)]
        let mut r = rng(102);
        r.gen_range(5..-2);
    }

    #[test]
    #[should_panic]
    fn test_gen_range_panic_usize() {
        #![allow(clippy::reversed_empty_ranges)]
        let mut r = rng(103);
        r.gen_range(5..2);
    }

    #[test]
    fn test_gen_bool() {
        #![allow(clippy::bool_assert_comparison)]

        let mut r = rng(105);
        for _ in 0..5 {
            assert_eq!(r.gen_bool(0.0), false);
            assert_eq!(r.gen_bool(1.0), true);
        }
    }

    #[test]
    fn test_rng_trait_object() {
        use crate::distributions::{Distribution, Standard};
        let mut rng = rng(109);
        let mut r = &mut rng as &mut dyn RngCore;
        r.next_u32();
        r.gen::<i32>();
        assert_eq!(r.gen_range(0..1), 0);
        let _c: u8 = Standard.sample(&mut r);
    }

    #[test]
    #[cfg(feature = "alloc")]
    fn test_rng_boxed_trait() {
        use crate::distributions::{Distribution, Standard};
        let rng = rng(110);
        let mut r = Box::new(rng) as Box<dyn RngCore>;
        r.next_u32();
        r.gen::<i32>();
        assert_eq!(r.gen_range(0..1), 0);
        let _c: u8 = Standard.sample(&mut r);
    }

    #[test]
    #[cfg_attr(miri, ignore)] // Miri is too slow
    fn test_gen_ratio_average() {
        const NUM: u32 = 3;
        const DENOM: u32 = 10;
        const N: u32 = 100_000;

        let mut sum: u32 = 0;
        let mut rng = rng(111);
        for _ in 0..N {
            if rng.gen_ratio(NUM, DENOM) {
                sum += 1;
            }
        }
        // Have Binomial(N, NUM/DENOM) distribution
        let expected = (NUM * N) / DENOM; // exact integer
        assert!(((sum - expected) as i32).abs() < 500);
    }
}
