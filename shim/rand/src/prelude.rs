// Copyright 2018 Developers of the Rand project.
//
// Licensed under the Apache License, Version 2.0 <LICENSE-APACHE or
// https://www.apache.org/licenses/LICENSE-2.0> or the MIT license
// <LICENSE-MIT or https://opensource.org/licenses/MIT>, at your
// option. This file may not be copied, modified, or distributed
// except according to those terms.

//! Convenience re-export of common members
//!
//! Like the standard library's prelude, this module simplifies importing of
//! common items. Unlike the standard prelude, the contents of this module must
//! be imported manually:
//!
//! ```
//! use rand::prelude::*;
//! # let mut r = StdRng::from_rng(thread_rng()).unwrap();
//! # let _: f32 = r.gen();
//! ```

#[doc(no_inline)] pub use crate::distributions::Distribution;
#[cfg(feature = "small_rng")]
#[doc(no_inline)]
pub use crate::rngs::SmallRng;
#[cfg(feature = "std_rng")]
#[doc(no_inline)] pub use crate::rngs::StdRng;
#[doc(no_inline)]
#[cfg(all(feature = "std", feature = "std_rng"))]
pub use crate::rngs::ThreadRng;
#[doc(no_inline)] pub use crate::seq::{IteratorRandom, SliceRandom};
#[doc(no_inline)]
#[cfg(all(feature = "std", feature = "std_rng"))]
pub use crate::{random, thread_rng};
#[doc(no_inline)] pub use crate::{CryptoRng, Rng, RngCore, SeedableRng};
