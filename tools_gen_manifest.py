#!/usr/bin/env python3
"""Regenerates MANIFEST.json from the tables below (kept as a script so that the manifest stays valid and consistent)."""
import json, subprocess, sys, os
HERE = os.path.dirname(os.path.abspath(__file__))

CLAIMED = {
 "C06": dict(
   text="Seeded search over what must not matter to a seeded forest: every run fits the same forest twice — twin A under one simulator-owned ambient RNG stream, then other estimators run (history pollution), then twin B on another OS thread under a different stream; each twin is driven with a generated call sequence (predict / predict_oob / predict on a same-shape, single-row and stacked matrix, with repetitions) (seeded, extreme words, or no simulator source at all) — and a prefix of every batch is re-run in a second OS process. A further batch injects faults into the forest's own seeded generator (seam S1b: boundary words 0/1/MAX/... at a seeded subset of its draws, the same plan for every twin, so the stream stays a pure function of the seed): bootstrap samples and sub-seeds a ChaCha stream reaches with negligible probability. Another batch adds an adversarial comparator party: the tree fits' own index sort (real code, driven through its generic element type behind a cfg-guarded wrapper) is led through its worst case by lazily decided comparisons (McIlroy's adversary), and the resulting order becomes a feature column of the twins. A cfg-guarded probe at the start of every tree fit logs the sample each tree is grown from, and the masks the model keeps are checked against that history. Forests are also asked 1e3..4e6 rows in one call, the same rows again in another order and from another thread, through ndarray / nalgebra matrices, and - restored from their serialised form - the same questions again. Twins must be byte-identical (bincode), equal under the model's own PartialEq, predict identically, and consume zero ambient words (tape log). Aggregation, out-of-bag aggregation over exactly the trees whose bootstrap mask excludes the row, stratification, range and tree-count are judged on the recorded history (serde image of trees[]/samples[], member trees rebuilt and their real predict called).",
   design_ref="DESIGN.md 5.4",
   note="Trusts: patched rand 0.8.8 (ThreadRng word source; StdRng untouched unless a fault plan is installed, then a pure function of seed+plan), serde/bincode as observation channel, the add-only cfg(smartcore_verif) tree-fit probe (thread-local: the mask clause is skipped when the history is incomplete) and sort wrapper in /repo/src/verif.rs. Rows without any out-of-bag tree are only judged for row-independence of the empty aggregate. Real: both forests, both trees, StdRng, the index sort. Stub: ambient ThreadRng entropy; the element type of the sort during the adversary's construction (comparisons answered by the party).",
   technique="deterministic simulation: twin fits under perturbed ambient RNG / thread / process / history (fault injection around the seed), recorded-history aggregation oracles vs reference plurality/mean model"),
 "C16": dict(
   text="Seeded search over the schedules the property quantifies over: every permutation KFold/train_test_split can draw is decided by the simulator through the patched ThreadRng seam (all n! orders for n<=5 exhaustively, >1e5 distinct decoded permutations per quick run for n<=64, extreme words at random draw sites), shuffle-off enumerated exhaustively for all 2<=k<=n<=64; leakage is judged from the rows the recording estimator/scorer parties actually receive, as in-run invariants and as a check over the recorded history, also under injected estimator failures and with harness-owned splitters (training lists that are not the complement, unsorted, resampled with repetitions, empty test lists, nominal n_splits), in sessions of several calls on one thread (each call judged), with two split iterators alive at once and advanced in a seeded interleaving, with iterators that change threads, and across counter boundaries (2^8 / 2^16 calls or folds between two identical splits). Few-run batches reach the far ends of the domain (train_test_split on > 2^24 rows, KFold with > 65536 folds streamed from the iterator). A clean batch is evidence, not proof, for n>5 with shuffling on.",
   design_ref="DESIGN.md 5.1",
   note="Trusts: the patched copy of rand 0.8.8 (only ThreadRng's word source is replaced; shuffle/gen_range are rand's real code), the harness's identity-carrying workload (row id in column 0, re-derivable from every column and the target). Real: smartcore model_selection + take on DenseMatrix/Vec, ndarray (both memory layouts) and nalgebra (train_test_split). Stub: ThreadRng entropy, estimator/scorer closures (recording parties).",
   technique="deterministic simulation: seeded PRNG owns every thread_rng draw (forced/extreme/random permutations), recorded-history leakage oracle, estimator-failure injection, replayable tape"),
 "C12": dict(
   text="Seeded search over k-means++ initialisations: the simulator serves every thread_rng word behind the first-centroid index and every D^2 cut-off (PRNG words, extreme words such as cut-off 0.0 / 1-2^-53, forced first row), so each run is one exactly replayable initialisation; a cfg-guarded in-run probe hands every tree-accelerated assignment step (the centroids actually used, sums, counts, membership, distortion) to an exhaustive-search reference model while the fit proceeds, and the fitted model (k/size/centroids/_y via serde) and predict are judged afterwards (also with 1e3..4e6 rows in one call, the same rows in another order and from another thread, through ndarray / nalgebra matrices, and on the model restored from its serialised form). The assignment step is additionally driven directly with coincident / far-outside / mid-point centroid sets (schedule-free, reported separately). A process-killing run is contained by a supervising process and reported with its replay file.",
   design_ref="DESIGN.md 5.3",
   note="Trusts: patched rand 0.8.8 (ThreadRng word source only), the add-only cfg(smartcore_verif) probe and bbd_clustering wrapper in /repo/src/verif.rs, f64 exhaustive search as reference with tolerances >=100x the measured worst case (reported in evidence). Real: KMeans fit/predict/kmeans_plus_plus, BBDTree. Stub: ThreadRng entropy.",
   technique="deterministic simulation: seeded PRNG/extreme/forced words behind k-means++ draws, in-run invariant at every Lloyd step vs exhaustive-search reference model, crash containment, replayable tape"),
 "C10": dict(
   text="Seeded search over the visiting orders the trainer may draw: every thread_rng word behind Optimizer::permutate (initialize + each epoch) is served by the simulator, so a fit is one exactly replayable tuple of permutations out of (n!)^(1+epoch); all order pairs for n<=4 (all initialize orders for n=5) are enumerated, larger n sampled with PRNG / extreme / forced adversarial orders (one class first, reverse, rotations). After each fit the dual box, sum-to-zero, support-vectors-are-training-rows, kernel-expansion (against closed forms computed in the harness) and label-rule oracles are evaluated on the model's serde image; termination is decided deterministically, without a wall clock: a cfg-guarded tick in the SMO loops delivers a digest of the optimizer state on every iteration and Brent cycle detection proves non-termination when a state repeats inside one loop (the loops are deterministic in that state); kernel-evaluation / iteration budgets through the Kernel trait seam remain as a far-away fallback. SVR (draws nothing; regular region, a slowly-converging C=100 batch, fits needing 1e7..1e8 updates, fractional polynomial degrees, whole-number degrees up to 20, calls with 1e3..4e6 rows, the same rows asked again in another order, cloned parameter values, models restored from their serialised form, and a batch whose C and targets are tuned to the data to the last bits — equal to or 2^-j off the unclipped optimum of a pair of rows — so that SMO steps land on the bounds) and the kernel closed forms / symmetry / PSD clauses ride along as schedule-free configurations, reported separately.",
   design_ref="DESIGN.md 5.2",
   note="Trusts: patched rand 0.8.8 (ThreadRng word source only), the Counting<K> wrapper (delegates to the real kernels), the add-only cfg(smartcore_verif) tick hook, closed-form kernels written in the harness. SVR optimality slack = tol + 1e-9*scale (stopping rule guarantees tol/2), 'at the bound' = within 4 ulp of C, residual sign checked against coefficient sign, sum-to-zero judged against 4*eps*C per solver update; SVR workload restricted to the fast-converging region (see evidence assumptions). Real: SVC/SVR optimisers, kernels, predict/decision_function. Stub: ThreadRng entropy, counting kernel wrapper.",
   technique="deterministic simulation: seeded PRNG owns every permutation SVC visits rows in (exhaustive for n<=4), liveness by state-cycle detection over tick-hook state digests (+ logical-clock fallback budget), dual-feasibility/kernel-expansion oracles vs closed-form reference, replayable tape"),
}

NOT_APPLICABLE = {
 "C01": "LU/QR/Cholesky/SVD are pure functions of a matrix: lu.rs/qr.rs/cholesky.rs/svd.rs contain no RNG draw, hash-order iteration, I/O, clock or shared state, so there is no schedule, fault or interleaving for a simulator to own; input generation alone would not be deterministic simulation.",
 "C02": "Eigen-decomposition is a pure function of a matrix (evd.rs has no nondeterminism source of any kind); nothing to schedule or fault.",
 "C03": "Dense matrix/vector algebra: pure functions of their operands; DenseMatrix::rand is not part of the property. No schedule, clock, I/O or sharing.",
 "C04": "Cover tree, linear search, heap selection and k-NN are deterministic functions of (data, query, k, r): no draw, no hash iteration, no I/O; nothing for a simulator to own.",
 "C05": "A plain tree fit is a pure function of (x, y, parameters): the ambient RNG handed to it is provably inert (the feature shuffle is guarded by mtry < n_attr and fit passes mtry = n_attr), so there is no set of schedules to explore; the randomised use of the same code inside a forest is covered under C06.",
 "C07": "OLS / ridge are closed-form solves; pure functions of the input.",
 "C08": "Lasso / elastic net run a deterministic interior-point iteration bounded by max_iter; termination here is a statement about inputs, not about schedules or faults.",
 "C09": "Logistic regression / L-BFGS: deterministic optimiser from a fixed start; pure function of the input.",
 "C11": "Naive Bayes is counting and arg-max; the only hash map is used for keyed lookup, nothing observable varies with any schedule.",
 "C13": "DBSCAN scans rows in a fixed order over deterministic neighbour-search backends; pure function of the input.",
 "C14": "PCA / truncated SVD are pure linear algebra.",
 "C15": "Metrics are pure functions of two vectors. The one nondeterminism source in reach (hash-order summation in entropy()) perturbs HCV scores only in their last bits, below any tolerance under which 'equals the textbook definition' is meaningful, and std's RandomState cannot be owned by a simulator without a forked std; the defect that exists (single-class labelling -> inf/NaN) is input-dependent, not schedule-dependent.",
 "C17": "Distances are pure functions of two vectors.",
 "C18": "One-hot encoding / category mapper: hash maps are used for lookup only and the one iteration over a map is sorted before use; pure function of the input.",
 "C19": "smartcore contains no Read/Write code: its Serialize/Deserialize impls are pure mappings between a model and serde's data model, and the byte stream (short reads/writes, EINTR) is handled entirely inside bincode/serde_json. No clause speaks about a faulty stream, so a simulated disk would only re-test the third-party format crates; serde is used here only as an observation channel.",
 "C20": "Backend equivalence: the same pure functions instantiated at three matrix types; nothing to schedule or fault.",
}
PENDING = {
}

def main():
    hooks_commits = subprocess.run(["git","-C","/repo","log","--format=%H %s"],capture_output=True,text=True).stdout.splitlines()
    hook_shas = [l.split()[0] for l in hooks_commits if l.split(" ",1)[1].startswith("verif hooks")]
    checks = []
    for pid, c in sorted(CLAIMED.items()):
        checks.append({
            "property_id": pid,
            "quick_cmd": f"./check {pid} quick",
            "thorough_cmd": f"./check {pid} thorough",
            "evidence_file": f"/verif/evidence/{pid}.json",
            "replay_cmd_template": f"./check replay {pid} {{path}}",
            "engine": "dst-harness",
            "level_claimed": {"category": "exploration", "text": c["text"], "design_ref": c["design_ref"]},
            "level_note": c["note"],
            "technique": c["technique"],
        })
    na = [{"property_id": k, "reason": v} for k, v in sorted({**NOT_APPLICABLE, **PENDING}.items())]
    m = {
        "version": 1,
        "setup_cmd": "./check setup",
        "hooks": {
            "guard": "cfg(smartcore_verif)",
            "enable": "RUSTFLAGS --cfg smartcore_verif, set in /verif/sim/.cargo/config.toml; smartcore is built from /repo's working tree through the shadow manifest /verif/sim/smartcore/Cargo.toml.in (serde feature on) with rand patched to /verif/shim/rand",
            "baseline_off_cmd": "cd /repo && cargo test --workspace --no-fail-fast --offline",
            "source_commits": hook_shas,
            "add_only": True,
        },
        "engines": [{
            "name": "dst-harness",
            "path": "/verif/sim/harness",
            "serves_properties": sorted(CLAIMED.keys()),
            "kind_free_text": "deterministic simulation with fault injection: one binary; a seeded PRNG (VERIF_SEED) decides every ambient-RNG word (tape), workload, parameter and fault; in-run invariants + history oracles against small reference models; thread-hop and process-hop determinism proofs; greedy minimisation (candidates on fresh threads); replay files re-run in a fresh process; violations that depend on hidden thread-local state are replayed with their minimised history, violations that depend on nondeterminism the simulator does not own (real threads started by a changed tree) by stressed re-execution, flagged as probabilistic",
        }],
        "checks": checks,
        "not_applicable": na,
        "notes": "Technique family fixed by the task: deterministic simulation with fault injection. Properties are claimed only where the anchored code consumes a nondeterminism source the simulator can own (DESIGN.md section 2); the rest are listed under not_applicable with the reason. Exit codes: 0 held, 1 VIOLATION (replay file written and re-verified in a fresh process), 2 harness error (build failure, unstable replay, harness-level nondeterminism).",
    }
    json.dump(m, open(os.path.join(HERE, "MANIFEST.json"), "w"), indent=1)
    print("MANIFEST.json written:", len(checks), "checks,", len(na), "not applicable")

if __name__ == "__main__":
    main()
