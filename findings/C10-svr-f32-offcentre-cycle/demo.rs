// Standalone demonstration of the defect repaired by /repo commit 947be2c ("fix: SVR::fit never terminates on large
// kernel values in single precision"). Put this file under tests/ of a checkout and run `cargo test --offline --test demo`:
// before the fix neither test returns (the optimizer walks through the same 6 / 2 states forever), after it both pass.
use smartcore::linalg::naive::dense_matrix::DenseMatrix;
use smartcore::svm::svr::{SVRParameters, SVR};
use smartcore::svm::Kernels;
use std::sync::mpsc;
use std::time::Duration;

fn fit_returns(rows: Vec<Vec<f32>>, y: Vec<f32>, c: f32) -> bool {
    let (tx, rx) = mpsc::channel();
    std::thread::spawn(move || {
        let x = DenseMatrix::from_2d_vec(&rows);
        let p = SVRParameters::default().with_c(c).with_eps(0.05f32).with_tol(1e-4f32).with_kernel(Kernels::polynomial(2.0f32, 0.5, 1.0));
        let m = SVR::fit(&x, &y, p).unwrap();
        let _ = tx.send(m.predict(&x).unwrap());
    });
    rx.recv_timeout(Duration::from_secs(30)).is_ok()
}

// rounding of the two multiplier updates at different magnitudes: a cycle of 6 states from iteration 256 on
#[test]
fn four_rows_offset_64() {
    let rows = vec![vec![63.72919335182804, 63.94937348135075], vec![63.69984219024186, 63.97337795265688], vec![64.43956447540411, 64.34241395506758], vec![64.39589677464282, 63.83033770098632]];
    let y = vec![-14.406275390999612, -15.818225329457107, 23.356864594634622, 21.02186734200386];
    assert!(fit_returns(rows, y, 10.0), "SVR::<f32>::fit did not return within 30 s");
}

// the curvature K11 + K22 - 2 K12 cancels to zero at kernel values of 4.3e9: both multipliers jump between 0 and C
#[test]
fn two_rows_offset_256() {
    let rows = vec![vec![256.3741279154685, 255.9671326395138], vec![256.4512978526237, 255.8994105067927]];
    let y = vec![5.059006255412288, 6.167713345133723];
    assert!(fit_returns(rows, y, 1.0), "SVR::<f32>::fit did not return within 30 s");
}
