#!/bin/bash
# Full-batch determinism proof: every quick check is executed twice in separate processes with different
# worker counts (16 and 5); the order-independent digest over ALL runs (batch_digest), the number of distinct
# schedules and the number of distinct states must agree. (Every ./check run already compares a prefix of each
# batch in a second process and re-executes 1 run in 20 on fresh threads; this script compares everything.)
set -u
HERE=$(cd "$(dirname "$0")" && pwd)
"$HERE/check" setup >/dev/null || exit 2
BIN="$HERE/sim/target/release/harness"
T=$(mktemp -d /tmp/verif-det.XXXXXX); trap 'rm -rf "$T"' EXIT
rc=0
# usage: tools_determinism.sh [extra seeds...]   the default seed is always compared; every extra VERIF_SEED value
# given on the command line (e.g. 1 2 3) is compared the same way, and must not raise a violation either
for seed in "${VERIF_SEED:-20260927}" "$@"; do
export VERIF_SEED=$seed
echo "== VERIF_SEED=$seed"
for id in C06 C10 C12 C16; do
  for w in 16 5; do
    VERIF_ROOT="$T/w$w" VERIF_WORKERS=$w VERIF_NO_PROCESS_HOP=1 "$BIN" exec $id quick >"$T/out.$w" 2>&1; r=$?
    [ $r -eq 0 ] || { echo "!! $id seed $seed workers $w: exit $r"; grep -E "VIOLATION|violation class|HARNESS" "$T/out.$w" | head -5; rc=1; }
  done
  python3 - "$T" "$id" <<'PY' || rc=1
import json,sys
t,i=sys.argv[1:3]
a=json.load(open(f"{t}/w16/evidence/{i}.json"))["coverage"]; b=json.load(open(f"{t}/w5/evidence/{i}.json"))["coverage"]
ok = a["determinism"]["batch_digest"]==b["determinism"]["batch_digest"] and a["distinct_nontrivial"]==b["distinct_nontrivial"] and a["distinct_states"]==b["distinct_states"]
print(i, "runs", a["evaluations"], "digest16", a["determinism"]["batch_digest"], "digest5", b["determinism"]["batch_digest"], "OK" if ok else "MISMATCH")
sys.exit(0 if ok else 1)
PY
done
done
exit $rc
